//! jdrive — runs `jawk::go` in-process under an instrumented boundary.
//!
//! Modes:
//!   jdrive serve            read cases on stdin, write observations on stdout
//!   jdrive enum5 <maxlen> <threads> [alphabet-hex]   exhaustive byte-string enumeration (C05)
//!
//! Case protocol (one directive per line, binary payloads hex encoded):
//!   case <id>
//!   arg <hex>                      one argv element (argv[0] is supplied)
//!   stdin <hex>                    finite input
//!   endless <prefix> <pre> <post> <cap>   prefix, then pre+counter+post for ever, EOF after cap bytes
//!   rsched <n,n,..>                max bytes per read call, cycling
//!   rintr <i,i,..>                 read-call indices that return ErrorKind::Interrupted
//!   rfail <offset>                 hard read error once <offset> bytes were delivered
//!   wfail <offset>                 hard stdout write error once <offset> bytes were accepted
//!   ronce                          the read error is transient: one call fails, later calls deliver the rest of the input
//!   link <name> <target>           symbolic link in dir (target as given)
//!   lockfile <name>                the driver holds an exclusive flock on that file of dir while jawk runs
//!   (a file whose name ends in '/' is an empty directory)
//!   fifohold                       the writers of the `fifo`s stay attached, silent, until the run is over (instead of closing at once)
//!   wonce                          the write error is transient: one call fails, later calls are accepted (and counted)
//!   wshort <n,n,..>                max bytes accepted per stdout write call, cycling
//!   wintr <i,i,..>                 stdout write-call indices returning Interrupted
//!   efail <offset>                 same for stderr
//!   flushfail 1                    stdout flush fails
//!   dir <hex>                      scratch directory (created, files removed afterwards)
//!   file <name> <content>          regular file in dir
//!   fifo <name>                    FIFO in dir that is never fed; reports whether it was opened
//!   efifo <name> <prefix> <pre> <post> <cap>    FIFO fed endlessly by a thread
//!   watchdog <ms>
//!   run
//! Observation:
//!   obs <id> / k v lines / end
use clap::Parser;
use std::cell::RefCell;
use std::io::{self, BufRead, Read, Write};
use std::rc::Rc;
use std::sync::atomic::{AtomicBool, AtomicU64, Ordering};
use std::sync::{mpsc, Arc, Mutex};
use std::time::{Duration, Instant};

fn hex(b: &[u8]) -> String {
    const H: &[u8; 16] = b"0123456789abcdef";
    let mut s = String::with_capacity(b.len() * 2);
    for x in b {
        s.push(H[(x >> 4) as usize] as char);
        s.push(H[(x & 15) as usize] as char);
    }
    s
}
fn unhex(s: &str) -> Vec<u8> {
    let s = s.as_bytes();
    if s == b"-" {
        return vec![];
    }
    let v = |c: u8| match c {
        b'0'..=b'9' => c - b'0',
        b'a'..=b'f' => c - b'a' + 10,
        _ => 0,
    };
    s.chunks(2).map(|p| (v(p[0]) << 4) | v(p[1])).collect()
}
fn ints(s: &str) -> Vec<usize> {
    s.split(',').filter(|x| !x.is_empty()).map(|x| x.parse().unwrap()).collect()
}

#[derive(Default, Clone)]
struct Endless {
    prefix: Vec<u8>,
    pre: Vec<u8>,
    post: Vec<u8>,
    cap: usize,
}

#[derive(Default, Clone)]
struct Case {
    id: String,
    args: Vec<Vec<u8>>,
    stdin: Vec<u8>,
    endless: Option<Endless>,
    rsched: Vec<usize>,
    rintr: Vec<usize>,
    rfail: Option<usize>,
    wfail: Option<usize>,
    wonce: bool,
    ronce: bool,
    links: Vec<(Vec<u8>, Vec<u8>)>,
    lockfiles: Vec<Vec<u8>>,
    fifohold: bool,
    wshort: Vec<usize>,
    wintr: Vec<usize>,
    efail: Option<usize>,
    flushfail: bool,
    dir: Option<Vec<u8>>,
    files: Vec<(Vec<u8>, Vec<u8>)>,
    fifos: Vec<Vec<u8>>,
    efifos: Vec<(Vec<u8>, Endless)>,
    watchdog_ms: u64,
}

#[derive(Default)]
struct ReadStats {
    pulled: usize,
    calls: usize,
    eof: bool,
    cap_hit: bool,
    errored: bool,
    reads_after_error: usize,
    reads_after_eof: usize,
}

/// The error kind of an injected hard fault varies with the fault offset: a failure is a failure whatever the OS calls it
/// (reset connections, timeouts, would-block on a non-blocking descriptor, ...).  Interrupted is never used here: it is the
/// one kind the standard library retries, and is injected separately (rintr / wintr).
fn fault_kind(offset: usize, read: bool) -> io::ErrorKind {
    use io::ErrorKind::*;
    const R: [io::ErrorKind; 10] = [Other, ConnectionReset, UnexpectedEof, BrokenPipe, ConnectionAborted, TimedOut, WouldBlock, InvalidData, PermissionDenied, NotConnected];
    const W: [io::ErrorKind; 8] = [Other, BrokenPipe, WouldBlock, ConnectionReset, TimedOut, WriteZero, PermissionDenied, InvalidInput];
    if read {
        R[offset % R.len()]
    } else {
        W[offset % W.len()]
    }
}

struct MonReader {
    data: Vec<u8>,
    pos: usize,
    endless: Option<Endless>,
    counter: u64,
    sched: Vec<usize>,
    intr: Vec<usize>,
    fail: Option<usize>,
    once: bool,
    stats: Arc<Mutex<ReadStats>>,
}

impl Read for MonReader {
    fn read(&mut self, buf: &mut [u8]) -> io::Result<usize> {
        let mut st = self.stats.lock().unwrap();
        let call = st.calls;
        st.calls += 1;
        if st.errored {
            st.reads_after_error += 1;
            if !self.once {
                return Err(io::Error::new(fault_kind(self.fail.unwrap_or(0), true), "injected read fault (repeated)"));
            }
        }
        if self.intr.contains(&call) {
            return Err(io::Error::new(io::ErrorKind::Interrupted, "injected EINTR"));
        }
        if let Some(k) = self.fail {
            if st.pulled >= k && !st.errored {
                st.errored = true;
                return Err(io::Error::new(fault_kind(k, true), "injected read fault"));
            }
        }
        if st.eof {
            st.reads_after_eof += 1;
            return Ok(0);
        }
        if self.pos >= self.data.len() {
            if let Some(e) = &self.endless {
                if st.pulled >= e.cap {
                    st.cap_hit = true;
                    st.eof = true;
                    return Ok(0);
                }
                self.data.clear();
                self.pos = 0;
                while self.data.len() < 4096 {
                    // an empty `pre` means: no stamped counter, `post` alone repeated for ever (e.g. an endless run of blanks)
                    if !e.pre.is_empty() {
                        self.data.extend_from_slice(&e.pre);
                        self.data.extend_from_slice(self.counter.to_string().as_bytes());
                    }
                    self.data.extend_from_slice(&e.post);
                    self.counter += 1;
                }
            } else {
                st.eof = true;
                return Ok(0);
            }
        }
        let mut n = buf.len().min(self.data.len() - self.pos);
        if !self.sched.is_empty() {
            n = n.min(self.sched[call % self.sched.len()].max(1));
        }
        if let Some(k) = self.fail {
            if !st.errored {
                n = n.min(k - st.pulled);
            }
        }
        buf[..n].copy_from_slice(&self.data[self.pos..self.pos + n]);
        self.pos += n;
        st.pulled += n;
        Ok(n)
    }
}

#[derive(Default)]
struct WriteStats {
    bytes: Vec<u8>,
    calls: usize,
    errored: bool,
    writes_after_error: usize,
    flushes: usize,
}

struct MonWriter {
    fail: Option<usize>,
    once: bool,
    short: Vec<usize>,
    intr: Vec<usize>,
    flushfail: bool,
    stats: Arc<Mutex<WriteStats>>,
}

impl Write for MonWriter {
    fn write(&mut self, buf: &[u8]) -> io::Result<usize> {
        let mut st = self.stats.lock().unwrap();
        let call = st.calls;
        st.calls += 1;
        if st.errored {
            st.writes_after_error += 1;
            if self.once {
                // the sink has recovered: whatever is written now lands behind the gap
                st.bytes.extend_from_slice(buf);
                return Ok(buf.len());
            }
            return Err(io::Error::new(fault_kind(self.fail.unwrap_or(0), false), "injected write fault (repeated)"));
        }
        if self.intr.contains(&call) {
            return Err(io::Error::new(io::ErrorKind::Interrupted, "injected EINTR"));
        }
        if buf.is_empty() {
            return Ok(0);
        }
        let mut n = buf.len();
        if !self.short.is_empty() {
            n = n.min(self.short[call % self.short.len()].max(1));
        }
        if let Some(k) = self.fail {
            if st.bytes.len() >= k {
                st.errored = true;
                return Err(io::Error::new(fault_kind(k, false), "injected write fault"));
            }
            n = n.min(k - st.bytes.len());
        }
        st.bytes.extend_from_slice(&buf[..n]);
        Ok(n)
    }
    fn flush(&mut self) -> io::Result<()> {
        let mut st = self.stats.lock().unwrap();
        st.flushes += 1;
        if self.flushfail {
            return Err(io::Error::new(io::ErrorKind::Other, "injected flush fault"));
        }
        Ok(())
    }
}

thread_local! {
    static PANIC_INFO: RefCell<Option<String>> = const { RefCell::new(None) };
}
fn take_panic_info() -> String {
    PANIC_INFO.with(|p| p.borrow_mut().take()).unwrap_or_default()
}

fn install_panic_hook() {
    std::panic::set_hook(Box::new(|info| {
        let loc = info
            .location()
            .map(|l| format!("{}:{}", l.file(), l.line()))
            .unwrap_or_else(|| "?".into());
        let msg = if let Some(s) = info.payload().downcast_ref::<&str>() {
            s.to_string()
        } else if let Some(s) = info.payload().downcast_ref::<String>() {
            s.clone()
        } else {
            "?".into()
        };
        PANIC_INFO.with(|p| {
            let mut g = p.borrow_mut();
            if g.is_none() {
                *g = Some(format!("{loc} {msg}"));
            }
        });
    }));
}

struct Obs {
    lines: Vec<String>,
}

fn feed_fifo(path: std::path::PathBuf, e: Endless, written: Arc<AtomicU64>, opened: Arc<AtomicBool>, capped: Arc<AtomicBool>) {
    std::thread::spawn(move || {
        let f = std::fs::OpenOptions::new().write(true).open(&path);
        let mut f = match f {
            Ok(f) => f,
            Err(_) => return,
        };
        opened.store(true, Ordering::SeqCst);
        let mut total = 0usize;
        let mut counter = 0u64;
        if f.write_all(&e.prefix).is_err() {
            return;
        }
        total += e.prefix.len();
        written.store(total as u64, Ordering::SeqCst);
        loop {
            if total >= e.cap {
                capped.store(true, Ordering::SeqCst);
                return;
            }
            let mut chunk = Vec::new();
            if !e.pre.is_empty() {
                chunk.extend_from_slice(&e.pre);
                chunk.extend_from_slice(counter.to_string().as_bytes());
            }
            chunk.extend_from_slice(&e.post);
            counter += 1;
            match f.write_all(&chunk) {
                Ok(()) => {
                    total += chunk.len();
                    written.store(total as u64, Ordering::SeqCst);
                }
                Err(_) => return,
            }
        }
    });
}

/// Bytes this process has asked the kernel to read so far (read(2) and friends, all descriptors): the difference around a
/// run is what jawk read from files and FIFOs (the instrumented stdin is memory).
fn proc_rchar() -> u64 {
    std::fs::read_to_string("/proc/self/io")
        .ok()
        .and_then(|t| t.lines().find_map(|l| l.strip_prefix("rchar: ").and_then(|v| v.trim().parse().ok())))
        .unwrap_or(0)
}

/// File names are bytes (they need not be UTF-8).
fn osname(b: &[u8]) -> std::ffi::OsString {
    use std::os::unix::ffi::OsStringExt;
    std::ffi::OsString::from_vec(b.to_vec())
}

fn run_case(case: &Case) -> Obs {
    let mut lines = Vec::new();
    // scratch files
    let mut created: Vec<std::path::PathBuf> = Vec::new();
    let dir = case.dir.as_ref().map(|d| std::path::PathBuf::from(String::from_utf8_lossy(d).to_string()));
    let mut fifo_flags: Vec<(std::path::PathBuf, Arc<AtomicBool>, Arc<AtomicBool>)> = Vec::new();
    let mut fifo_passed: Vec<Arc<AtomicBool>> = Vec::new();
    let mut efifo_stats: Vec<(Arc<AtomicU64>, Arc<AtomicBool>, Arc<AtomicBool>)> = Vec::new();
    let fifo_release = Arc::new(AtomicBool::new(!case.fifohold));
    if let Some(dir) = &dir {
        let _ = std::fs::create_dir_all(dir);
        for (name, content) in &case.files {
            let p = dir.join(osname(name));
            if let Some(parent) = p.parent() {
                let _ = std::fs::create_dir_all(parent);
            }
            if name.ends_with(b"/") {
                let _ = std::fs::create_dir_all(&p);
                continue;
            }
            std::fs::write(&p, content).expect("write scratch file");
            created.push(p);
        }
        for (name, target) in &case.links {
            let p = dir.join(osname(name));
            if let Some(parent) = p.parent() {
                let _ = std::fs::create_dir_all(parent);
            }
            let _ = std::fs::remove_file(&p);
            std::os::unix::fs::symlink(osname(target), &p).expect("symlink");
            created.push(p);
        }
        for name in &case.fifos {
            let p = dir.join(osname(name));
            let _ = std::fs::remove_file(&p);
            let st = std::process::Command::new("mkfifo").arg(&p).status().expect("mkfifo");
            assert!(st.success());
            let opened = Arc::new(AtomicBool::new(false));
            let probing = Arc::new(AtomicBool::new(false));
            let passed = Arc::new(AtomicBool::new(false));
            {
                let (p2, opened, probing, passed) = (p.clone(), opened.clone(), probing.clone(), passed.clone());
                let release = fifo_release.clone();
                std::thread::spawn(move || {
                    // blocks until somebody opens the FIFO for reading
                    let f = std::fs::OpenOptions::new().write(true).open(&p2);
                    if f.is_ok() && !probing.load(Ordering::SeqCst) {
                        opened.store(true, Ordering::SeqCst);
                    }
                    passed.store(true, Ordering::SeqCst);
                    // a silent writer: attached, writing nothing, until the run is over
                    let t0 = Instant::now();
                    while !release.load(Ordering::SeqCst) && t0.elapsed() < Duration::from_secs(120) {
                        std::thread::sleep(Duration::from_millis(2));
                    }
                    drop(f);
                    // dropping f gives the reader EOF
                });
            }
            fifo_passed.push(passed);
            fifo_flags.push((p.clone(), opened, probing));
            created.push(p);
        }
        for (name, e) in &case.efifos {
            let p = dir.join(osname(name));
            let _ = std::fs::remove_file(&p);
            let st = std::process::Command::new("mkfifo").arg(&p).status().expect("mkfifo");
            assert!(st.success());
            let written = Arc::new(AtomicU64::new(0));
            let opened = Arc::new(AtomicBool::new(false));
            let capped = Arc::new(AtomicBool::new(false));
            feed_fifo(p.clone(), e.clone(), written.clone(), opened.clone(), capped.clone());
            efifo_stats.push((written, opened, capped));
            created.push(p);
        }
    }

    let rstats = Arc::new(Mutex::new(ReadStats::default()));
    let ostats = Arc::new(Mutex::new(WriteStats::default()));
    let estats = Arc::new(Mutex::new(WriteStats::default()));
    let factory_calls = Arc::new(AtomicU64::new(0));
    let rchar = Arc::new(AtomicU64::new(0));
    // exclusive advisory locks held by "somebody else" (another open file description) for the whole run
    let mut held_locks = Vec::new();
    if let Some(dir) = &dir {
        for name in &case.lockfiles {
            if let Ok(f) = std::fs::OpenOptions::new().read(true).write(true).open(dir.join(osname(name))) {
                let _ = f.lock();
                held_locks.push(f);
            }
        }
    }

    let (tx, rx) = mpsc::channel::<(String, String, String)>();
    let started = Instant::now();
    {
        let case = case.clone();
        let (rstats, ostats, estats, factory_calls) = (rstats.clone(), ostats.clone(), estats.clone(), factory_calls.clone());
        let rchar = rchar.clone();
        let builder = std::thread::Builder::new().stack_size(8 * 1024 * 1024).name("case".into());
        builder
            .spawn(move || {
                let r = std::panic::catch_unwind(std::panic::AssertUnwindSafe(|| {
                    let mut argv: Vec<std::ffi::OsString> = vec!["jawk".into()];
                    for a in &case.args {
                        use std::os::unix::ffi::OsStringExt;
                        argv.push(std::ffi::OsString::from_vec(a.clone()));
                    }
                    let cli = match jawk::Cli::try_parse_from(argv) {
                        Ok(c) => c,
                        Err(e) => {
                            return ("clierr".to_string(), format!("{:?}: {}", e.kind(), e));
                        }
                    };
                    let stdout: Rc<RefCell<dyn Write + Send>> = Rc::new(RefCell::new(MonWriter {
                        fail: case.wfail,
                        once: case.wonce,
                        short: case.wshort.clone(),
                        intr: case.wintr.clone(),
                        flushfail: case.flushfail,
                        stats: ostats.clone(),
                    }));
                    let stderr: Rc<RefCell<dyn Write + Send>> = Rc::new(RefCell::new(MonWriter {
                        fail: case.efail,
                        once: false,
                        short: vec![],
                        intr: vec![],
                        flushfail: false,
                        stats: estats.clone(),
                    }));
                    let c2 = case.clone();
                    let rs = rstats.clone();
                    let fc = factory_calls.clone();
                    let factory = Box::new(move || {
                        fc.fetch_add(1, Ordering::SeqCst);
                        let (data, endless) = match &c2.endless {
                            Some(e) => (e.prefix.clone(), Some(e.clone())),
                            None => (c2.stdin.clone(), None),
                        };
                        MonReader {
                            data,
                            pos: 0,
                            endless,
                            counter: 0,
                            sched: c2.rsched.clone(),
                            intr: c2.rintr.clone(),
                            fail: c2.rfail,
                            once: c2.ronce,
                            stats: rs.clone(),
                        }
                    });
                    let r0 = proc_rchar();
                    let res = jawk::go(cli, stdout, stderr, factory);
                    rchar.store(proc_rchar().saturating_sub(r0), Ordering::SeqCst);
                    match res {
                        Ok(()) => ("ok".to_string(), String::new()),
                        Err(e) => ("err".to_string(), format!("{e}")),
                    }
                }));
                #[cfg(feature = "hooks")]
                let hooks = {
                    let o = jawk::verif::take_observed();
                    let mut s = String::new();
                    for (name, c) in &o.stages {
                        s.push_str(&format!(
                            "{}:{}:{}:{}:{}:{}:{}:{};",
                            name, c.starts, c.processes, c.completes, c.breaks, c.errors, c.process_after_break, c.process_before_start
                        ));
                    }
                    if let Some((h, m, cap)) = o.regex_cache {
                        s.push_str(&format!("regex:{h}:{m}:{cap};"));
                    }
                    s
                };
                #[cfg(not(feature = "hooks"))]
                let hooks = String::new();
                let out = match r {
                    Ok((k, t)) => (k, t, hooks),
                    Err(_) => ("panic".to_string(), take_panic_info(), hooks),
                };
                let _ = tx.send(out);
            })
            .expect("spawn case thread");
    }
    let wd = if case.watchdog_ms == 0 { 20_000 } else { case.watchdog_ms };
    let (kind, text, hooks) = match rx.recv_timeout(Duration::from_millis(wd)) {
        Ok(x) => x,
        Err(_) => ("timeout".to_string(), String::new(), String::new()),
    };
    let micros = started.elapsed().as_micros();
    lines.push(format!("result {kind}"));
    if kind == "panic" {
        lines.push(format!("panicinfo {}", hex(text.as_bytes())));
    } else if !text.is_empty() {
        lines.push(format!("errtext {}", hex(text.as_bytes())));
    }
    {
        let o = ostats.lock().unwrap_or_else(|e| e.into_inner());
        lines.push(format!("stdout {}", if o.bytes.is_empty() { "-".to_string() } else { hex(&o.bytes) }));
        lines.push(format!("ow {} {} {} {}", o.calls, o.errored as u8, o.writes_after_error, o.flushes));
        let e = estats.lock().unwrap_or_else(|e| e.into_inner());
        lines.push(format!("stderr {}", if e.bytes.is_empty() { "-".to_string() } else { hex(&e.bytes) }));
        lines.push(format!("ew {} {} {} {}", e.calls, e.errored as u8, e.writes_after_error, e.flushes));
        let r = rstats.lock().unwrap_or_else(|e| e.into_inner());
        lines.push(format!(
            "rd {} {} {} {} {} {} {} {}",
            r.pulled,
            r.calls,
            factory_calls.load(Ordering::SeqCst),
            r.eof as u8,
            r.cap_hit as u8,
            r.errored as u8,
            r.reads_after_error,
            r.reads_after_eof
        ));
    }
    lines.push(format!("rchar {}", rchar.load(Ordering::SeqCst)));
    drop(held_locks);
    if !hooks.is_empty() {
        lines.push(format!("hooks {hooks}"));
    }
    fifo_release.store(true, Ordering::SeqCst);
    // FIFOs: release the blocked writer threads, report who opened what
    if kind != "timeout" {
        for (p, opened, probing) in &fifo_flags {
            let was_opened = opened.load(Ordering::SeqCst);
            if !was_opened {
                probing.store(true, Ordering::SeqCst);
                use std::os::unix::fs::OpenOptionsExt;
                let rd = std::fs::OpenOptions::new().read(true).custom_flags(0o4000).open(p);
                // hold the read end until the writer thread is through its open(): it must never meet a FIFO of a later case
                let t0 = Instant::now();
                let idx = fifo_flags.iter().position(|x| &x.0 == p).unwrap_or(0);
                while !fifo_passed[idx].load(Ordering::SeqCst) && t0.elapsed() < Duration::from_secs(5) {
                    std::thread::sleep(Duration::from_millis(1));
                }
                drop(rd);
            }
            lines.push(format!("fifo {}", was_opened as u8));
        }
        for (written, opened, capped) in &efifo_stats {
            lines.push(format!(
                "efifo {} {} {}",
                written.load(Ordering::SeqCst),
                opened.load(Ordering::SeqCst) as u8,
                capped.load(Ordering::SeqCst) as u8
            ));
        }
        for (i, (p, _)) in case.efifos.iter().enumerate() {
            // unblock a feeder that nobody ever opened: hold a read end until the feeder thread has got through its open()
            // (it may not even have been scheduled yet), so that it can never open a FIFO a later case creates under this name
            if !efifo_stats[i].1.load(Ordering::SeqCst) {
                use std::os::unix::fs::OpenOptionsExt;
                if let Some(dir) = &dir {
                    let rd = std::fs::OpenOptions::new()
                        .read(true)
                        .custom_flags(0o4000)
                        .open(dir.join(osname(p)));
                    let t0 = Instant::now();
                    while !efifo_stats[i].1.load(Ordering::SeqCst) && t0.elapsed() < Duration::from_secs(5) {
                        std::thread::sleep(Duration::from_millis(1));
                    }
                    drop(rd);
                }
            }
        }
    }
    for p in created {
        let _ = std::fs::remove_file(p);
    }
    lines.push(format!("micros {micros}"));
    Obs { lines }
}

extern "C" {
    fn dup2(oldfd: i32, newfd: i32) -> i32;
}

/// The protocol lives on private (close-on-exec) copies of descriptors 0 and 1, and /dev/null takes their places: a process
/// that jawk starts (`trigger` hands its own standard streams on) can neither write into the protocol nor read from it.
fn private_protocol_channels() -> (std::fs::File, std::fs::File) {
    use std::os::fd::{AsFd, AsRawFd};
    let own_in = io::stdin().as_fd().try_clone_to_owned().expect("dup stdin");
    let own_out = io::stdout().as_fd().try_clone_to_owned().expect("dup stdout");
    let null_r = std::fs::File::open("/dev/null").expect("/dev/null");
    let null_w = std::fs::OpenOptions::new().write(true).open("/dev/null").expect("/dev/null");
    unsafe {
        assert!(dup2(null_r.as_raw_fd(), 0) == 0);
        assert!(dup2(null_w.as_raw_fd(), 1) == 1);
    }
    (std::fs::File::from(own_in), std::fs::File::from(own_out))
}

fn serve() {
    install_panic_hook();
    let (proto_in, proto_out) = private_protocol_channels();
    let mut out = io::BufWriter::new(proto_out);
    let mut case = Case::default();
    for line in io::BufReader::new(proto_in).lines() {
        let line = match line {
            Ok(l) => l,
            Err(_) => break,
        };
        let mut it = line.split(' ');
        let key = it.next().unwrap_or("");
        let rest: Vec<&str> = it.collect();
        match key {
            "case" => {
                case = Case::default();
                case.id = rest.first().unwrap_or(&"").to_string();
            }
            "arg" => case.args.push(unhex(rest.first().unwrap_or(&"-"))),
            "stdin" => case.stdin = unhex(rest[0]),
            "endless" => {
                case.endless = Some(Endless {
                    prefix: unhex(rest[0]),
                    pre: unhex(rest[1]),
                    post: unhex(rest[2]),
                    cap: rest[3].parse().unwrap(),
                })
            }
            "rsched" => case.rsched = ints(rest[0]),
            "rintr" => case.rintr = ints(rest[0]),
            "rfail" => case.rfail = Some(rest[0].parse().unwrap()),
            "wfail" => case.wfail = Some(rest[0].parse().unwrap()),
            "wonce" => case.wonce = true,
            "ronce" => case.ronce = true,
            "link" => case.links.push((unhex(rest[0]), unhex(rest[1]))),
            "lockfile" => case.lockfiles.push(unhex(rest[0])),
            "fifohold" => case.fifohold = true,
            "wshort" => case.wshort = ints(rest[0]),
            "wintr" => case.wintr = ints(rest[0]),
            "efail" => case.efail = Some(rest[0].parse().unwrap()),
            "flushfail" => case.flushfail = true,
            "dir" => case.dir = Some(unhex(rest[0])),
            "file" => case.files.push((unhex(rest[0]), unhex(rest[1]))),
            "fifo" => case.fifos.push(unhex(rest[0])),
            "efifo" => case.efifos.push((
                unhex(rest[0]),
                Endless {
                    prefix: unhex(rest[1]),
                    pre: unhex(rest[2]),
                    post: unhex(rest[3]),
                    cap: rest[4].parse().unwrap(),
                },
            )),
            "watchdog" => case.watchdog_ms = rest[0].parse().unwrap(),
            "run" => {
                let obs = run_case(&case);
                let timed_out = obs.lines.first().map(|l| l == "result timeout").unwrap_or(false);
                writeln!(out, "obs {}", case.id).unwrap();
                for l in &obs.lines {
                    writeln!(out, "{l}").unwrap();
                }
                writeln!(out, "end").unwrap();
                out.flush().unwrap();
                if timed_out {
                    // the case thread is still running: this process is no longer usable
                    std::process::exit(3);
                }
            }
            "" => {}
            other => {
                eprintln!("jdrive: unknown directive {other}");
                std::process::exit(2);
            }
        }
    }
}

/// Exhaustive enumeration of byte strings over an alphabet (C05).
fn enum5(maxlen: usize, threads: usize, alphabet: Vec<u8>, shard: usize, shards: usize) {
    install_panic_hook();
    let policies = ["ignore", "panic", "stderr", "stdout"];
    let n = alphabet.len();
    // first-level split: by (length, first two symbols)
    let mut units: Vec<(usize, usize)> = Vec::new();
    for len in 0..=maxlen {
        if len < 2 {
            units.push((len, 0));
        } else {
            for p in 0..n * n {
                units.push((len, p));
            }
        }
    }
    let units = Arc::new(units);
    let next = Arc::new(AtomicU64::new(0));
    let total = Arc::new(AtomicU64::new(0));
    let counts: Arc<Mutex<std::collections::BTreeMap<String, u64>>> = Arc::new(Mutex::new(Default::default()));
    let anomalies: Arc<Mutex<Vec<String>>> = Arc::new(Mutex::new(Vec::new()));
    let current: Arc<Vec<Mutex<(Vec<u8>, usize, Instant)>>> =
        Arc::new((0..threads).map(|_| Mutex::new((Vec::new(), 0, Instant::now()))).collect());
    let done = Arc::new(AtomicU64::new(0));
    let mut handles = Vec::new();
    for t in 0..threads {
        let (units, next, total, counts, anomalies, current, alphabet, done) = (
            units.clone(),
            next.clone(),
            total.clone(),
            counts.clone(),
            anomalies.clone(),
            current.clone(),
            alphabet.clone(),
            done.clone(),
        );
        let h = std::thread::Builder::new()
            .stack_size(8 * 1024 * 1024)
            .spawn(move || {
                let mut local: std::collections::BTreeMap<String, u64> = Default::default();
                let mut ltotal = 0u64;
                loop {
                    let u = next.fetch_add(1, Ordering::SeqCst) as usize;
                    if u >= units.len() {
                        break;
                    }
                    if u % shards != shard {
                        continue;
                    }
                    let (len, p) = units[u];
                    let free = if len < 2 { len } else { len - 2 };
                    let combos = n.pow(free as u32);
                    let mut buf = vec![0u8; len];
                    if len >= 2 {
                        buf[0] = alphabet[p / n];
                        buf[1] = alphabet[p % n];
                    }
                    for c in 0..combos {
                        let mut x = c;
                        let base = if len < 2 { 0 } else { 2 };
                        for i in 0..free {
                            buf[base + i] = alphabet[x % n];
                            x /= n;
                        }
                        let pol = (c + p + len) % 4;
                        {
                            let mut g = current[t].lock().unwrap();
                            g.0.clear();
                            g.0.extend_from_slice(&buf);
                            g.1 = pol;
                            g.2 = Instant::now();
                        }
                        let data = buf.clone();
                        let r = std::panic::catch_unwind(std::panic::AssertUnwindSafe(|| {
                            let cli = jawk::Cli::try_parse_from(["jawk", "--on-error", policies[pol]]).unwrap();
                            let so: Rc<RefCell<dyn Write + Send>> = Rc::new(RefCell::new(io::sink()));
                            let se: Rc<RefCell<dyn Write + Send>> = Rc::new(RefCell::new(io::sink()));
                            let d2 = data.clone();
                            let factory = Box::new(move || io::Cursor::new(d2.clone()));
                            jawk::go(cli, so, se, factory).is_ok()
                        }));
                        ltotal += 1;
                        let key = match r {
                            Ok(true) => format!("ok/{}", policies[pol]),
                            Ok(false) => format!("err/{}", policies[pol]),
                            Err(_) => {
                                let info = take_panic_info();
                                let mut a = anomalies.lock().unwrap();
                                if a.len() < 200 {
                                    a.push(format!("panic {} {} {}", policies[pol], hex(&buf), hex(info.as_bytes())));
                                }
                                format!("panic/{}", policies[pol])
                            }
                        };
                        *local.entry(key).or_default() += 1;
                    }
                }
                total.fetch_add(ltotal, Ordering::SeqCst);
                let mut g = counts.lock().unwrap();
                for (k, v) in local {
                    *g.entry(k).or_default() += v;
                }
                done.fetch_add(1, Ordering::SeqCst);
            })
            .unwrap();
        handles.push(h);
    }
    // watchdog: a case in flight for more than 30 s is a suspected hang
    loop {
        if done.load(Ordering::SeqCst) as usize == threads {
            break;
        }
        std::thread::sleep(Duration::from_millis(200));
        for t in 0..threads {
            let g = current[t].lock().unwrap();
            if !g.0.is_empty() && g.2.elapsed() > Duration::from_secs(30) {
                println!("suspect-hang {} {}", policies[g.1], hex(&g.0));
                println!("total {}", total.load(Ordering::SeqCst));
                std::process::exit(3);
            }
        }
    }
    for h in handles {
        let _ = h.join();
    }
    println!("total {}", total.load(Ordering::SeqCst));
    for (k, v) in counts.lock().unwrap().iter() {
        println!("count {k} {v}");
    }
    for a in anomalies.lock().unwrap().iter() {
        println!("{a}");
    }
    println!("done");
}

fn main() {
    let args: Vec<String> = std::env::args().collect();
    match args.get(1).map(|s| s.as_str()) {
        Some("serve") => serve(),
        Some("enum5") => {
            let maxlen: usize = args[2].parse().unwrap();
            let threads: usize = args[3].parse().unwrap();
            let alphabet = if args.len() > 4 && args[4] != "-" {
                unhex(&args[4])
            } else {
                b"{}[],:\"\\-+.019eEtrunfa \n".to_vec()
            };
            let shard: usize = args.get(5).map(|s| s.parse().unwrap()).unwrap_or(0);
            let shards: usize = args.get(6).map(|s| s.parse().unwrap()).unwrap_or(1);
            enum5(maxlen, threads, alphabet, shard, shards);
        }
        Some("hooks") => {
            println!("{}", cfg!(feature = "hooks"));
        }
        _ => {
            eprintln!("usage: jdrive serve | enum5 <maxlen> <threads> [alphabet-hex] [shard shards] | hooks");
            std::process::exit(2);
        }
    }
}
