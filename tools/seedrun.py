#!/usr/bin/env python3
"""Development tool (not a MANIFEST check): run checks against a seeded change.

  tools/seedrun.py <seeded-dir|patch.diff> [--props C01,C02|all] [--tier quick] [--seeds 0,1] [--keep]

Creates a scratch git worktree of /repo HEAD under /tmp/seedrun/<name>, applies the patch there,
optionally runs the repo's own test suite, then runs the requested checks with VERIF_REPO pointing
at the worktree, VERIF_TARGET/VERIF_OUT under the same scratch directory (so /verif/evidence and
/repo are untouched), prints one line per (check, seed) and removes the worktree and its build
output again.  Exit code 0 if at least one check fired (exit 1 + VIOLATION line), 3 if all silent.
"""
import argparse
import json
import os
import shutil
import subprocess
import sys
import time

ROOT = os.path.dirname(os.path.dirname(os.path.abspath(__file__)))


def sh(cmd, **kw):
    return subprocess.run(cmd, stdout=subprocess.PIPE, stderr=subprocess.STDOUT, **kw)


def main():
    ap = argparse.ArgumentParser()
    ap.add_argument("patch")
    ap.add_argument("--props", default="")
    ap.add_argument("--tier", default="quick")
    ap.add_argument("--seeds", default="0")
    ap.add_argument("--keep", action="store_true")
    ap.add_argument("--tests", action="store_true", help="also run the repo's test suite on the patched tree")
    ap.add_argument("--json", default="")
    ap.add_argument("--record", default="", help="append the outcome to <seeded-dir>/meta.json with this note")
    a = ap.parse_args()
    patch = a.patch
    meta = {}
    if os.path.isdir(patch):
        mp = os.path.join(patch, "meta.json")
        if os.path.exists(mp):
            meta = json.load(open(mp))
        name = os.path.basename(os.path.normpath(patch))
        patch = os.path.join(patch, "patch.diff")
    else:
        name = os.path.basename(os.path.dirname(os.path.abspath(patch))) or "p"
    props = a.props or meta.get("property") or "all"
    if props == "all":
        props = ",".join("C%02d" % i for i in range(1, 21))
    props = props.split(",")
    base = "/tmp/seedrun/%s-%d" % (name, os.getpid())
    wt = base + "/repo"
    os.makedirs(base, exist_ok=True)
    r = sh(["git", "-C", "/repo", "worktree", "add", "--detach", wt, "HEAD"])
    if r.returncode:
        print(r.stdout.decode())
        return 2
    results = []
    try:
        r = sh(["git", "-C", wt, "apply", os.path.abspath(patch)])
        if r.returncode:
            print("patch does not apply:", r.stdout.decode())
            return 2
        if a.tests:
            env = dict(os.environ, CARGO_NET_OFFLINE="true", CARGO_TARGET_DIR=base + "/ttarget")
            r = sh(["cargo", "test", "--workspace", "--no-fail-fast", "--offline"], cwd=wt, env=env)
            out = r.stdout.decode("utf-8", "replace")
            summ = [l for l in out.splitlines() if l.startswith("test result")]
            print("TESTS exit=%d %s" % (r.returncode, " | ".join(summ)))
            shutil.rmtree(base + "/ttarget", ignore_errors=True)
        for prop in props:
            for seed in a.seeds.split(","):
                env = dict(os.environ, VERIF_REPO=wt, VERIF_TARGET=base + "/target", VERIF_OUT=base + "/out",
                           VERIF_SEED=seed)
                t0 = time.time()
                r = sh([os.path.join(ROOT, "check"), prop, a.tier], cwd=ROOT, env=env)
                out = r.stdout.decode("utf-8", "replace")
                viol = [l for l in out.splitlines() if l.startswith("VIOLATION")]
                last = out.strip().splitlines()[-1] if out.strip() else ""
                print("%s %s seed=%s exit=%d %.0fs violations=%d :: %s" % (
                    name, prop, seed, r.returncode, time.time() - t0, len(viol),
                    (viol[0] if viol else last)[:400]))
                sys.stdout.flush()
                results.append({"prop": prop, "seed": int(seed), "exit": r.returncode, "violations": len(viol),
                                "first": (viol[0] if viol else last)[:600]})
    finally:
        if not a.keep:
            sh(["git", "-C", "/repo", "worktree", "remove", "--force", wt])
            shutil.rmtree(base, ignore_errors=True)
            sh(["git", "-C", "/repo", "worktree", "prune"])
    if a.json:
        json.dump(results, open(a.json, "w"), indent=1)
    if a.record and os.path.isdir(a.patch):
        mp = os.path.join(a.patch, "meta.json")
        meta = json.load(open(mp)) if os.path.exists(mp) else {}
        hist = meta.setdefault("check_runs", [])
        head = sh(["git", "-C", ROOT, "rev-parse", "--short", "HEAD"]).stdout.decode().strip()
        for x in results:
            hist.append({"cmd": "./check %s %s (VERIF_SEED=%d, tree = /repo HEAD + patch.diff)" % (x["prop"], a.tier, x["seed"]),
                         "exit": x["exit"], "fired": x["exit"] == 1, "first_line": x["first"], "note": a.record, "verif_commit": head})
        meta["detected_by"] = sorted({h["cmd"].split()[1] for h in hist if h["fired"]})
        json.dump(meta, open(mp, "w"), indent=1)
    return 0 if any(x["exit"] == 1 for x in results) else 3


if __name__ == "__main__":
    sys.exit(main())
