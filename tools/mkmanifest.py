#!/usr/bin/env python3
"""Regenerates /verif/MANIFEST.json from the table below (kept in one place so it stays valid)."""
import json
import os
import subprocess

ROOT = os.path.dirname(os.path.dirname(os.path.abspath(__file__)))

CHECKS = {
    # id: (level, technique, level text, level note, design_ref)
    "C01": ("exploration", "runtime monitoring: reference-model oracle (independent strict JSON reader) over generated streams run through the real jawk::go",
            "Every generated stream is executed by the real code and its stdout is decided by an independent reader against the values that were spelt; reach comes from seeded diversity of values, spellings, separators and delivery (whole, 1-byte, random chunk sizes, Interrupted results; long streams), 10^4-10^6 streams, not from enumeration.",
            "Trusts vf/jsonmodel.py (strict reader, spelling generator, cross-checked against Python's json in the self-test) and Python float()/Fraction; held only on the streams generated.", "5 C01"),
    "C02": ("exploration", "runtime monitoring: strict-reader and layout oracles on stdout bytes of real runs in all styles; metamorphic second pass (fixpoint)",
            "Real executions for 3 styles x 2 utf8 settings x 9 row separators per generated value set; every row is read back by an independent strict reader, layout predicates are evaluated on the raw bytes, and the output is fed back for the fixpoint.",
            "Trusts the strict reader and the pretty-layout checker; fixpoint demanded for whitespace separators and the identity pipeline only; open known findings astral-escape and nonfinite-number are matched by exact defect models.", "5 C02"),
    "C06": ("exploration", "runtime monitoring: differential oracle (noisy run vs noise-free run of the same build) plus per-policy stream predicates at the stdout/stderr/Result boundary",
            "Hundreds of bracket-balanced malformed arrays/objects in front of ordinary values must leave the rows of those values alone (rows(X.Y) = rows(X) then rows(Y)).  Each generated noisy stream (garbage tokens in the gaps, a value cut off by the end of the input, malformed / unrepresentable number tokens, strings that look like JSON syntax; 13 pipelines incl. --only-objects-and-arrays and &index readers; the stream also as a file with a long / non-ASCII name or inside a nested directory) is run under all four policies and compared with the run on the noise-free stream; panic policy additionally bounded by bytes pulled from the instrumented reader.",
            "Garbage tokens contain no CR/LF and no LF directly follows a cut-off value, so an error: line is one line; the text and position of error lines are not demanded (the property does not fix them).", "5 C06"),
    "C16": ("fault_enumeration", "runtime monitoring with fault injection: hard read error at every input offset and hard write error at every output offset of each generated run, observed at the instrumented Read/Write boundary",
            "For every generated input the fault point ranges over all byte offsets of the input (read) and of the fault-free output (write, also stderr), each a real execution; the oracle demands Err, no panic, no read after the error and prefix-of-fault-free output; error kinds vary with the offset; write faults are also transient (one failing call, then the sink takes bytes again: no write call may follow) and also hit runs whose input is a file in a directory argument; read faults are also transient, and files whose read fails (links to /proc/self/mem, named directly or met inside a directory, also under names that are not UTF-8) must end the run with an error.",
            "Inputs, pipelines and policies are sampled (exhaustive over offsets, not over inputs); file read faults are not injectable at this boundary.", "5 C16"),
    "C17": ("exploration", "runtime monitoring: differential oracle over delivery forms (read schedules with Interrupted, stdin vs file, 1-4 files) plus a span model from the generator for the input-context selectors",
            "Each generated stream is delivered in five forms and as file partitions (also cut inside a value); rows carrying all seven input-context selectors are compared across forms and against byte spans known to the generator; selectors also in their lenient spellings and each alone; string literals with raw control characters; file names with commas, blanks, leading dots, in sub-directories, named twice; a directory of 300 files (the driver may hold 256 descriptors), some with names that are not UTF-8; directories without files (stdin is no fallback); a file behind a linked directory, a file forty directories down, one file named twice under --unique with &index selected, an unrelated --set in front of the selectors, a procfs file (reported size 0) named directly and behind a link.",
            "(line, column) is mapped to a byte offset as line start + column - 1; chunking inside BufReader<File> cannot be controlled from the boundary.", "5 C17"),
    "C08": ("exploration", "runtime monitoring: metamorphic/differential oracle (limited run = slice of the unlimited run of the same build), exhaustive over all small streams",
            "Every stream of length <= 4 (quick) / 5 (thorough) over 4 keys x all S,T in 0..6 x 24 pipelines is executed for real and compared with the slice of the unlimited run; random histories up to 40 rows add unique/filter/split/select; a share of all units delivers the records as files instead of stdin.",
            "The unlimited run of the same build is the reference, so a defect that affects both runs identically is C03/C07's business; group/merge reference is rebuilt in Python from the unlimited rows.", "5 C08"),
    "C09": ("exploration", "runtime monitoring: differential oracle (grouped/merged run vs rows of the ungrouped run of the same build) on generated histories",
            "Each generated history is run with and without --group-by/--merge; the collection must be exactly one row built from the rows the ungrouped pipeline prints (first-seen key order, arrival order, empty collection on no rows); a quarter of the units deliver the records as 1-3 files; duplicate-named selections, a column shadowing the key's member name, structurally colliding rows; behind --unique (no sort, no limits) the rows must be the first occurrences of the rows without it.",
            "The group key is read from the printed row (pipelines print the input or select .g=g); text output of a collection is its concise JSON.", "5 C09"),
    "C10": ("exploration", "runtime monitoring: differential oracle (--unique run vs non-unique run) with equality observed from jawk's own = function and checked against the documented equality",
            "Sequences over a universe of equal spellings are run with/without --unique; pairwise equality of the distinct rows is observed in a companion run of (= a b) and must agree with the model; the unique run must keep exactly first occurrences.",
            "Rows are identified by their printed one-line text; -0, member-order permutations and |n| >= 2^53 are outside the property's domain.", "5 C10"),
    "C14": ("exploration", "runtime monitoring at the read boundary: bytes pulled from an instrumented endless reader / FIFO (bounded-progress restatement of termination)",
            "jawk::go is given an input that never ends; the monitor counts bytes pulled and fails the run if the reader's cap is reached or more than 64 KiB are pulled past the value that produces row S+T (located by finite unlimited runs of the same build); tails either keep qualifying or never produce a row again (filtered out / duplicates), values separated by LF, CRLF, space, tab or nothing; the finite part also as a file (plain, or in a nested directory of a directory argument) in front of the endless FIFO, or in front of a FIFO nobody writes to (which must not be opened); a filter that triggers a process outliving the run; a 1.5 MB file of which the first rows suffice (bytes read by the process are metered); --take 0 on a stream that is open but silent.",
            "Termination on unbounded input is not decidable by a finite run; it is restated as 'returns Ok having pulled a bounded number of bytes'. Decided in bytes, never in wall-clock time (the 30 s watchdog only yields inconclusive).", "5 C14"),
    "C18": ("exploration", "runtime monitoring at the boundary: Result, bytes written to stdout, stdin-factory invocations and FIFO-open detection for single-fault corruptions of valid configurations",
            "Valid generated configurations (checked to be accepted) are corrupted by exactly one operator in one option position; the real parser/validator runs and the monitor observes that nothing was written, stdin was never requested and an input FIFO was never opened before the error.",
            "Each corruption is invalid by the documented grammar (pinned function table for arities); clap rejections count as early rejections.", "5 C18"),
    "C20": ("exploration", "runtime monitoring of the real executable as a child process (stdout/stderr/exit status), differential against the in-process run of the same build; failing sinks (closed pipe, /dev/full)",
            "The release binary built from the working tree is spawned on generated inputs under all policies, valid and invalid configurations and three kinds of stdout; streams and exit status are compared with the in-process reference and the exit status also with the documented outcome (a valid configuration fails only under --on-error=panic on malformed input); inputs that cannot be read (stdin = a directory, missing / unreadable file, UNIX socket) must fail with a message, readable inputs reached through links and nested directories must succeed with the plain file's rows; rows of 3-5 KB in 20 % of the units; values typed on a pseudo-terminal (nothing typed after Ctrl-D is read); stdin as a file positioned behind a header.",
            "The in-process run of the same library is the reference for stream contents; process-level behaviour (which fd, exit status, lost output) is decided here, success/failure also against the documented rule.", "5 C20"),
    "C05": ("exploration", "runtime monitoring: panic hook + catch_unwind + process-death + watchdog-with-isolated-confirmation around the real jawk::go; exhaustive small byte strings in the driver; a valgrind memcheck shard in every run, ASan / valgrind / Miri shards in the thorough tier",
            "A complete arity sweep (every documented function name x 0..3 (thorough 0..4) arguments x every tuple over 5 (8) boundary arguments); exhaustive over all byte strings up to length 4 (quick, plus a 1/8 shard of length 5) or 6 (thorough) over the 24-byte JSON alphabet; seeded mutations of valid streams up to 4 KiB; generated (50 % ill-typed) expressions with multi-byte characters at chosen offsets and boundary numeric arguments in every option position; a boundary matrix (numeric and number-as-string functions over 23 extreme numbers / 24 extreme decimal strings, string functions over empty and one-character strings); expressions nested 20-64 deep built from one wrapper; records whose texts make parse_selection parse itself again (directly, mutually, wrapped; chains of twenty); exec/trigger with a fixed list of harmless commands (children that fill either pipe, die by signal, outlive the run); release and debug (overflow-checking) builds; driver processes under a 6 GiB address-space cap so that unbounded allocation ends as an attributed abort.",
            "Only the explored inputs/expressions are covered; non-termination is restated as no return within 20 s confirmed by a 60 s isolated re-run; resource exhaustion (range/collections > 10^4, nesting > 64) is out of the property's domain.", "5 C05, 6"),
    "C11": ("exploration", "runtime monitoring: metamorphic oracle on stdout bytes (out(A.B) = out(A).out(B), also B.A and A.A) for generated stateless pipelines (also under --only-objects-and-arrays with top-level scalars between the records)",
            "Five real runs per generated (pipeline, A, B); units with nested bindings entered for some records only also run every record in a process state of its own; pure byte comparison, no model; expressions from the full generated grammar, all output styles, regex cache sizes 0/1/2.",
            "Runs that fail for configuration reasons or panic are skipped and counted (C18/C05).", "5 C11"),
    "C12": ("exploration", "runtime monitoring: metamorphic oracle inside one run (bound form vs manually substituted form as paired columns; same expression in several --select positions)",
            "Bindings (set, define, --set variable/macro) are evaluated next to their substituted forms, usually inside a nested input so that ^ crosses the binding; the same expression is also placed in 2-4 selects, also after --split-by; pipes (| a b1..bk ^^..) must yield the value of the corresponding stage prefix (identity-like stages included); a --set macro reading a variable bound at the place of use must follow that binding; a --set binding used in --split-by/--filter/--sort-by/--group-by against the value written out; /name/ references inside set/define bodies; 3 % of the units run 700-2000 sparse records first.",
            "Substitution is performed on the AST by the harness; the generator guarantees macro bodies without free macro references; pipes vs the full model are C04's part (here: the parent chain of a pipe against its own stage prefixes).", "5 C12"),
    "C13": ("exploration", "runtime monitoring: metamorphic oracles between runs (select vs filter/sort-by/group-by/split-by/macro position; canonical vs alias/separator/sugar spelling; regex cache sizes 0/1/2/64)",
            "The same generated expression is used in all five option positions and in all spellings (80/80 aliases of pure functions exercised per quick run) and regex-heavy histories are run under four cache sizes with hook-observed hits/misses/evictions; position comparisons also run on the elements of a split record with expressions that reach ^, with only a low-cardinality column selected, and with a macro whose variable is bound at the place of use; the records in the opposite order must give the same values in the opposite order.",
            "Relations between runs of the same build only; a defect that affects all positions identically is C04's business.", "5 C13"),
    "C04": ("exploration", "runtime monitoring: reference-model oracle (Python evaluator written from the function documentation, re-validated against the tree's inline examples at run time) applied to --select columns of real runs",
            "Every generated expression is evaluated by the real code on generated inputs and by the reference evaluator on the same AST; each column must equal the model's value or be absent exactly when the model says nothing. All 108 pure functions are targeted in turn; all aliases via spelling variants.",
            "Trusts vf/exprmodel.py as the reading of the documentation fixed in SEMANTICS.md (it agrees with 407 inline examples of the repository); corners the documents leave open are answered UNSPECIFIED and not compared (counted in the evidence).", "5 C04, SEMANTICS.md"),
    "C03": ("exploration", "runtime monitoring: reference-model oracle (documented stage composition as pure list transformations) plus metamorphic argv-order oracle over generated option subsets and histories",
            "Each generated configuration (all option kinds, core-grammar expressions, planted order probes) runs for real in two argv orders; stdout must be byte-identical between the orders and match the reference pipeline's rows; hook counters show how much each stage actually processed.",
            "Trusts vf/pipemodel.py + the reference evaluator restricted to a core sub-grammar; cases needing an order the documents do not define (object vs object) are not compared.", "5 C03"),
    "C07": ("exploration", "runtime monitoring: exhaustive comparator matrix observed through the six comparison functions (order axioms over all triples, agreement with the documented order) and stable-sort model for --sort-by and the six sort functions",
            "All ordered pairs of a 127-value universe x 6 operators in one real run, axioms checked over all triples; random sequences with ties/absent keys sorted by 1-3 keys and directions, and the sort functions, compared with a stable sort under the validated comparator.",
            "Object-vs-object order is taken from the observed relation once shown to be a strict total order compatible with =; -0, |n| >= 2^53 and member-order permutations are outside the domain.", "5 C07"),
    "C15": ("exploration", "runtime monitoring: reference-model oracle (independent RFC 4180 reader with skip-initial-space; field renderer for text mode) over generated rows and text options",
            "Rows of 1-5 selections over all JSON types and absent, with quotes, commas, CR/LF, tabs and non-ASCII text, and astral / control characters, are printed for real as csv and as text under generated options and read back field by field; rows are sometimes followed by an equal-but-not-identical twin (member order, 2^64-1 vs 2^64).",
            "Text mode data avoids the item separator and line breaks, escape sequences are single characters (as the property says); trusts vf/csvmodel.py.", "5 C15"),
    "C19": ("exploration", "runtime monitoring: digit-identity oracle for 64-bit integers through 43 pipeline/function templates and exact-rational oracle (fractions.Fraction) for the number-as-string functions",
            "Boundary and random integers of [-2^63, 2^64) are carried through every non-arithmetic stage/function template in all output styles and must come out digit for digit; decimal strings up to 60 digits / exponent +-100 go through \"+\" \"-\" \"*\" \"abs\" \"||\" the comparisons and the number-as-string sort and are compared exactly (the sort against a stable sort by Fraction); neighbours sharing one double go through equality-based operations (sort_unique, --unique, = filters).",
            "Operands are spelt -?digits[.digits][(e|E)[+-]?digits]; among integers >= 2^53 a sort is only required to return the same multiset (C07 excludes their order).", "5 C19"),
}

PENDING_REASON = "check not built yet in this session (see DESIGN.md section 5 for the planned monitor)"


def main():
    props = [json.loads(l)["id"] for l in open(os.path.join(ROOT, "properties.jsonl"))]
    try:
        commits = subprocess.run(["git", "-C", "/repo", "log", "--format=%H %s"], capture_output=True, text=True).stdout.splitlines()
        hook_commits = [c.split()[0] for c in commits if c.split(" ", 1)[1].startswith("verif hooks")]
    except Exception:
        hook_commits = []
    checks = []
    na = []
    for p in props:
        if p in CHECKS and os.path.exists(os.path.join(ROOT, "vf", "checks", p.lower() + ".py")):
            level, tech, text, note, ref = CHECKS[p]
            checks.append({
                "property_id": p,
                "quick_cmd": "./check %s quick" % p,
                "thorough_cmd": "./check %s thorough" % p,
                "evidence_file": "/verif/evidence/%s.json" % p,
                "replay_cmd_template": "./check %s --replay {path}" % p,
                "engine": "jdrive+vf",
                "level_claimed": {"category": level, "text": text, "design_ref": "DESIGN.md section " + ref},
                "level_note": note,
                "technique": tech,
            })
        else:
            na.append({"property_id": p, "reason": PENDING_REASON})
    m = {
        "version": 1,
        "setup_cmd": "./setup.sh",
        "hooks": {
            "guard": "cargo feature verif-hooks",
            "enable": "the driver crate /verif/driver depends on jawk by path (/repo) with features=[\"verif-hooks\"]; ./check builds it with cargo build --offline --release --features hooks",
            "baseline_off_cmd": "cd /repo && cargo test --workspace --no-fail-fast --offline",
            "source_commits": hook_commits,
            "add_only": True,
        },
        "engines": [{
            "name": "jdrive+vf",
            "path": "/verif/driver (Rust, links /repo) + /verif/vf (Python 3 stdlib monitors)",
            "serves_properties": [c["property_id"] for c in checks],
            "kind_free_text": "runtime monitoring: the real jawk::go (and the real binary for C20) executed under an instrumented Read/Write boundary with fault injection; reference-model, metamorphic and boundary oracles in Python; Miri/ASan/valgrind shards for C05",
        }],
        "checks": checks,
        "notes": "Exit codes of ./check: 0 held (KNOWN-FINDING lines possible), 1 violation (VIOLATION property=<id> replay=<path>), 2 inconclusive (build failure / too little observed). VERIF_SEED seeds every generator.",
        "not_applicable": na,
    }
    with open(os.path.join(ROOT, "MANIFEST.json"), "w") as f:
        json.dump(m, f, indent=1)
    print("MANIFEST.json: %d checks, %d not claimed" % (len(checks), len(na)))


if __name__ == "__main__":
    main()
