#!/usr/bin/env python3
"""Development tool: prepare a round of seeded-change sub-agents.

  tools/seedprompts.py [--pure] <round-dir> <nameA> <nameB>      e.g.  tools/seedprompts.py /tmp/seed5 m9 m10

Creates one scratch worktree of /repo HEAD per property under <round-dir>/Cxx, an output directory <round-dir>/Cxx.out and a
PROMPT.txt in it.  The prompt holds the property text and, as "already caught", what every earlier change for that property
needs in order to manifest - nothing else from /verif.
"""
import glob
import json
import os
import subprocess
import sys

ROOT = os.path.dirname(os.path.dirname(os.path.abspath(__file__)))
TMPL = '''You are helping test a verification framework by playing the role of a developer who introduces a subtle regression into an open-source Rust project.

The project is yift/jawk (an AWK-like CLI for streams of JSON values). You have your OWN scratch git worktree of it at {RD}/{ID} (a detached checkout; work only there). Do NOT read, list or touch anything under /verif, and do NOT modify /repo (you may not even cd there). Everything is offline: use `cargo ... --offline` only (set CARGO_NET_OFFLINE=true). Build only inside your worktree (its own ./target).

Here is a semantic property that jawk is supposed to satisfy:

-----
{PROP}
-----

Your job: produce TWO independent, different source changes to jawk (call them {A} and {B}), each of which
  (a) compiles (also with `--features verif-hooks`),
  (b) still passes the existing test suite unchanged: `cd {RD}/{ID} && CARGO_NET_OFFLINE=true cargo test --workspace --no-fail-fast --offline` (158 tests must pass; do not edit, delete or add tests in the patch),
  (c) BREAKS the property above for some inputs/configurations, and
  (d) is REALISTIC and SUBTLE: the kind of bug a refactoring, an "optimisation", a feature addition, a dependency-API misunderstanding or an off-by-one would introduce. It must need something specific to manifest and must NOT be exposed at once by ordinary use (e.g. `echo '{{"a":1}}' | jawk` and the common examples must still behave normally). Do not special-case magic constants in an artificial way; the change should look like plausible code. Do not touch code under `#[cfg(feature = "verif-hooks")]` or src/verif.rs.
  (e) breaks something the property (read together with jawk's own documentation / help texts) actually pins down: behaviour that no document specifies either way does not count.

A strong randomized test harness already catches ALL of the following earlier changes for this property (and many for the neighbouring properties), so yours must be clearly DIFFERENT from every one of them - a different code site AND a different kind of triggering condition - and {A} and {B} must differ from each other:
{PRIOR}

From these you can infer what the harness exercises: random values of all JSON types (boundary integers, extreme doubles, astral/control characters, long strings > 64 KiB, > 20-element lists, hundreds of records, many empty collections, numbers spelt with hundreds of digits), all option aliases, spellings and argument orders, stdin/files/nested directories/symlinks/FIFOs with arbitrary read chunking, short and interrupted writes, read/write faults of many error kinds at every offset, all output styles and text options, duplicate selection names, nested scopes, recursion, long runs, patterns/formats/names/selection texts that come from the data, a non-UTF-8 environment variable, `exec`/`trigger` of small commands (children that flood either pipe or outlive the run), file names with commas/blanks/leading dots/non-ASCII, sockets and writer-less FIFOs as inputs, transient (fail-once) write faults, rows far above any buffer size on dead sinks, raw control characters inside strings, malformed/unrepresentable number tokens as noise, expressions nested 64 deep, variadic calls with 13 arguments, sort keys reached through macros/variables/selected columns, `--set` bindings used in every expression option, every option value written in alternative spellings, integers at both ends of the 64-bit ranges and neighbours sharing a double, decimal strings with exponents up to 1000, un-named and duplicate-named selections, limits (0 included) in every pipeline, a terminal on stdin, symbolic links, empty directories, locked and very large input files (bytes read are metered), transient read faults, byte-order marks, member-permuted objects as sort keys and as neighbouring rows, zero in every spelling, NaN/inf results fed to every sorting function, member names outside ASCII, regexes with counted Unicode classes, column names with backslashes and sigils, user variables named like the frame members of fold/indexed/entries, a variable and a macro sharing a name, `--set` values and stage options that mention other `--set` names, error reports counted per noise region, integers written as doubles, hundreds of input files under a low descriptor limit, file names that are not UTF-8, files whose read fails, the same file named twice, stdin positioned behind a header, text typed after Ctrl-D, silent attached FIFO writers, dozens of distinct formats/patterns per run (cache churn) and patterns that collide under common 32-bit hashes, malformed JSON literals inside expressions, foreign literals (True/None/NaN) as noise, huge limits in front of every stage, operands around 2^127, every documented function called with 0-4 boundary arguments, nested set/define scopes entered for some records only, commands that fail to start, hundreds of malformed arrays/objects before the values, NUL runs and strings that are not UTF-8 as noise, literals next to .5 and 2^52, every spelling of zero (-0, -0.0, 0e0), member names ending in asc/desc, cut-off final values, directories (also one-file, nested, linked, named twice) among the file arguments, a terminal on stderr, a producer that goes quiet behind the last wanted value, input context read behind --skip and sorters, empty escape sequences, number-as-string sorts with a hundred keys. Think hard about what such a harness would STILL miss, e.g.: a condition on the *combination* of two rarely combined features; a value that is special only to one function; an effect visible only in one output column position or only for the last/first row or only when the output is empty; an effect depending on the *number* of arguments of a variadic function; state that survives from one record/file/option to the next; rarely used functions (look at the full function list in the help) and rarely used options; behaviour at exactly 2^53, 2^63, 2^64; interplay of --skip/--take/--unique/--sort-by/--group-by with files and directories; error *messages* if the property covers them. Prefer source files not listed above.

First read the top-level layout, README/docs and the source files relevant to the property to understand how the behaviour is implemented. Then craft each change.

For each change produce, under {RD}/{ID}.out/{A}/ and {RD}/{ID}.out/{B}/:
  - patch.diff : output of `git -C {RD}/{ID} diff` for that change alone (relative to the unmodified HEAD; must apply with `git apply` on a clean checkout of the same commit). Only files under src/ should change.
  - demo.sh : an executable POSIX shell script taking ONE argument, the path to a built `jawk` binary. It runs a concrete scenario and exits 0 if the property holds in that scenario and exits 1 (printing what differed) if the property is violated. It must exit 0 with the binary built from the unmodified tree and exit 1 with the binary built from the patched tree. Self-contained (printf/echo input; python3 is available); must finish within 60 seconds and use less than 2 GiB of memory.
  - NOTES.md : 5-15 lines: what was changed, why it breaks the property, a paragraph starting "Needed to manifest:" saying exactly what is needed for it to manifest, and why the existing tests do not notice.

Procedure for each change: apply it; run the full test suite (158 pass); `cargo build --release --offline`; run demo.sh against the patched binary (must exit 1); save patch.diff; `git -C {RD}/{ID} checkout -- .`; rebuild; run demo.sh against the clean binary (must exit 0). Leave the worktree clean when done; keep ./target.

Work step by step with short tool calls and short messages; never write very long single responses.

In your final answer report, for {A} and {B}: one-paragraph description, files touched, what it needs to manifest, the literal output of the two demo.sh runs and the test-suite summary line with the patch applied. If you could not produce a change satisfying all of (a)-(e), say so honestly. Keep the final report under 50 lines.
'''


def pure_template():
    """Round 9 on: the prompt holds the property text and the worktree only (nothing learnt from earlier rounds)."""
    t = TMPL
    i = t.index("A strong randomized test harness already catches")
    j = t.index("First read the top-level layout")
    hint = ("Aim for a change that needs something specific to manifest: a particular multi-step sequence of operations, an unusual "
            "input, a fault at a particular point, or two cooperating code sites that each look fine alone. {A} and {B} must differ "
            "from each other in code site and in kind of trigger.\n\n")
    return t[:i] + hint + t[j:]


def main():
    pure = "--pure" in sys.argv
    if pure:
        sys.argv.remove("--pure")
    rd, a, b = sys.argv[1], sys.argv[2], sys.argv[3]
    tmpl = pure_template() if pure else TMPL
    os.makedirs(rd, exist_ok=True)
    for ln in open(os.path.join(ROOT, "properties.jsonl")):
        p = json.loads(ln)
        pid = p["id"]
        text = "%s — %s\n\n%s\n\nQuantified over: %s\n" % (pid, p["title"], p["statement"], p["quantifier"]["text"])
        prior = []
        for mp in sorted(glob.glob(os.path.join(ROOT, "seeded", pid + "-m*", "meta.json"))):
            md = json.load(open(mp))
            prior.append("  - (%s) %s" % (", ".join(md.get("files_touched") or []), md.get("needs_to_manifest", "")[:600]))
        wt = os.path.join(rd, pid)
        if not os.path.exists(wt):
            subprocess.run(["git", "-C", "/repo", "worktree", "add", "--detach", wt, "HEAD"], stdout=subprocess.DEVNULL, stderr=subprocess.DEVNULL, check=True)
        os.makedirs(wt + ".out", exist_ok=True)
        open(os.path.join(wt + ".out", "PROMPT.txt"), "w").write(tmpl.format(RD=rd, ID=pid, A=a, B=b, PROP=text, PRIOR="\n".join(prior)))
    print("prepared", rd)


if __name__ == "__main__":
    main()
