#!/usr/bin/env python3
"""Development tool: run the targeted quick check against EVERY seeded change at the current /verif and /repo state.

  tools/seedsweep.py [-j N] [--seed S] [--only C07,C12]

Writes seeded/SWEEP.md (one line per change: fired / silent, first violation line) and prints a summary.  Each run happens in
a scratch worktree (tools/seedrun.py), nothing in /repo or /verif/evidence is touched; meta.json files are not modified.
"""
import argparse
import concurrent.futures as cf
import glob
import json
import os
import subprocess
import sys

ROOT = os.path.dirname(os.path.dirname(os.path.abspath(__file__)))


def one(d, seed):
    name = os.path.basename(d)
    meta = json.load(open(os.path.join(d, "meta.json")))
    props = [meta["property"]] + [p for p in meta.get("detected_by", []) if p != meta["property"]][:1]
    jf = "/tmp/seedrun/sweep-%s.json" % name
    subprocess.run([sys.executable, os.path.join(ROOT, "tools/seedrun.py"), d, "--props", ",".join(props), "--seeds", str(seed), "--json", jf],
                   stdout=subprocess.PIPE, stderr=subprocess.STDOUT)
    res = json.load(open(jf)) if os.path.exists(jf) else []
    return name, meta["property"], res


def main():
    ap = argparse.ArgumentParser()
    ap.add_argument("-j", type=int, default=3)
    ap.add_argument("--seed", type=int, default=0)
    ap.add_argument("--only", default="")
    a = ap.parse_args()
    dirs = sorted(os.path.dirname(p) for p in glob.glob(os.path.join(ROOT, "seeded", "*", "meta.json")))
    if a.only:
        keep = set(a.only.split(","))
        dirs = [d for d in dirs if os.path.basename(d)[:3] in keep]
    os.makedirs("/tmp/seedrun", exist_ok=True)
    rows = []
    with cf.ThreadPoolExecutor(a.j) as ex:
        for name, prop, res in ex.map(lambda d: one(d, a.seed), dirs):
            own = [r for r in res if r["prop"] == prop]
            fired_own = any(r["exit"] == 1 for r in own)
            fired_any = [r["prop"] for r in res if r["exit"] == 1]
            rows.append((name, prop, fired_own, fired_any, (own[0]["first"] if own else "")[:160]))
            print("%-8s own=%s any=%s" % (name, fired_own, ",".join(fired_any) or "-"))
            sys.stdout.flush()
    head = subprocess.run(["git", "-C", ROOT, "rev-parse", "--short", "HEAD"], stdout=subprocess.PIPE).stdout.decode().strip()
    rhead = subprocess.run(["git", "-C", "/repo", "rev-parse", "--short", "HEAD"], stdout=subprocess.PIPE).stdout.decode().strip()
    out = ["# Sweep of all seeded changes", "",
           "Targeted quick check (VERIF_SEED=%d) against /repo %s + each seeded patch, /verif %s." % (a.seed, rhead, head), "",
           "| change | property | targeted check fires | checks that fired | first line of the targeted check |", "|---|---|---|---|---|"]
    for r in sorted(rows):
        out.append("| %s | %s | %s | %s | %s |" % (r[0], r[1], "yes" if r[2] else "NO", ", ".join(r[3]) or "-", r[4].replace("|", "\\|")))
    n = len(rows)
    out += ["", "%d changes; targeted check fired on %d; some check fired on %d." % (n, sum(1 for r in rows if r[2]), sum(1 for r in rows if r[3]))]
    open(os.path.join(ROOT, "seeded", "SWEEP.md"), "w").write("\n".join(out) + "\n")
    print(out[-1])


if __name__ == "__main__":
    main()
