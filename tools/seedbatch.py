#!/usr/bin/env python3
"""Development tool: confirm candidate seeded changes and run the targeted checks against them.

  tools/seedbatch.py [-j N] [--props own|all] <candidate-dir>...     candidate-dir = /tmp/seed/C07.out/m1

For each candidate: tools/seedverify.py (tests 158/158, demo fails with the patch and passes without);
if confirmed, copy patch.diff, demo.sh and NOTES.md to /verif/seeded/<Cxx>-<mN>/, run
tools/seedrun.py for the property it targets (or all) and write meta.json with what was run and seen.
"""
import argparse
import concurrent.futures as cf
import json
import os
import re
import shutil
import subprocess
import sys

ROOT = os.path.dirname(os.path.dirname(os.path.abspath(__file__)))


def one(cand, props, tier, seeds):
    cand = os.path.abspath(cand)
    prop = re.search(r"(C\d\d)", cand).group(1)
    name = "%s-%s" % (prop, os.path.basename(cand))
    r = subprocess.run([sys.executable, os.path.join(ROOT, "tools/seedverify.py"), cand], stdout=subprocess.PIPE,
                       stderr=subprocess.STDOUT)
    try:
        ver = json.loads(r.stdout.decode().strip().splitlines()[-1])
    except Exception:
        ver = {"confirmed": False, "error": r.stdout.decode()[-800:]}
    if not ver.get("confirmed"):
        return name, ver, None
    dst = os.path.join(ROOT, "seeded", name)
    os.makedirs(dst, exist_ok=True)
    for f in ("patch.diff", "demo.sh", "NOTES.md", "demo_test.rs"):
        if os.path.exists(os.path.join(cand, f)):
            shutil.copy(os.path.join(cand, f), os.path.join(dst, f))
    pl = prop if props == "own" else props
    jf = "/tmp/seedrun/%s.json" % name
    r = subprocess.run([sys.executable, os.path.join(ROOT, "tools/seedrun.py"), dst, "--props", pl, "--tier", tier,
                        "--seeds", seeds, "--json", jf], stdout=subprocess.PIPE, stderr=subprocess.STDOUT)
    runs = json.load(open(jf)) if os.path.exists(jf) else []
    notes = open(os.path.join(dst, "NOTES.md")).read() if os.path.exists(os.path.join(dst, "NOTES.md")) else ""
    metap = os.path.join(dst, "meta.json")
    meta = json.load(open(metap)) if os.path.exists(metap) else {}
    meta.update({
        "property": prop,
        "origin": "independent sub-agent given only the property text and a scratch worktree of /repo",
        "files_touched": ver.get("files"),
        "needs_to_manifest": meta.get("needs_to_manifest") or "see NOTES.md",
        "confirmed": {
            "how": "tools/seedverify.py in a scratch worktree: git apply; cargo test --workspace --no-fail-fast --offline; cargo build; demo.sh <patched binary>; demo.sh <clean binary>",
            "tests_passed": ver.get("tests_passed"), "tests_failed": ver.get("tests_failed"),
            "demo_exit_with_patch": ver.get("demo_patched_exit"), "demo_exit_without_patch": ver.get("demo_clean_exit"),
        },
    })
    hist = meta.setdefault("check_runs", [])
    for x in runs:
        hist.append({"cmd": "./check %s %s (VERIF_SEED=%d, tree = /repo HEAD + patch.diff)" % (x["prop"], tier, x["seed"]),
                     "exit": x["exit"], "fired": x["exit"] == 1, "first_line": x["first"]})
    meta["detected_by"] = sorted({x["cmd"].split()[1] for x in hist if x["fired"]})
    json.dump(meta, open(metap, "w"), indent=1)
    return name, ver, runs


def main():
    ap = argparse.ArgumentParser()
    ap.add_argument("-j", type=int, default=3)
    ap.add_argument("--props", default="own")
    ap.add_argument("--tier", default="quick")
    ap.add_argument("--seeds", default="0")
    ap.add_argument("cands", nargs="+")
    a = ap.parse_args()
    # make sure the clean binary exists before fanning out
    subprocess.run([sys.executable, "-c", "import sys; sys.path.insert(0, %r); import seedverify; seedverify.clean_binary()" %
                    os.path.join(ROOT, "tools")], check=True)
    with cf.ThreadPoolExecutor(a.j) as ex:
        futs = {ex.submit(one, c, a.props, a.tier, a.seeds): c for c in a.cands}
        for f in cf.as_completed(futs):
            name, ver, runs = f.result()
            if runs is None:
                print("%-10s NOT CONFIRMED %s" % (name, json.dumps(ver)[:600]))
            else:
                for x in runs:
                    print("%-10s %s seed=%d exit=%d %s" % (name, x["prop"], x["seed"], x["exit"], x["first"][:260]))
            sys.stdout.flush()


if __name__ == "__main__":
    main()
