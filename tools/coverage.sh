#!/bin/sh
# Development tool (not a MANIFEST check): which lines of /repo/src do the checks' workloads actually execute?
#
#   tools/coverage.sh [tier] [ids...]        e.g.  tools/coverage.sh quick C01 C04      (default: quick, all twenty)
#
# Builds the driver with -Cinstrument-coverage (nightly, whose sysroot carries the matching llvm-profdata / llvm-cov) into a
# scratch target directory, runs the checks with VERIF_TARGET / VERIF_OUT redirected there (so /verif/evidence and
# /verif/target are untouched), merges the profiles and writes
#   <scratch>/cov/summary.txt      per-file line/region/function coverage of /repo/src
#   <scratch>/cov/uncovered.txt    every source line of /repo/src that was instrumented and never executed
# The scratch directory (default /tmp/vfcov) can be removed afterwards.  A driver that is killed by a watchdog writes no
# profile; that only lowers the counts.
set -e
cd "$(dirname "$0")/.."
TIER=${1:-quick}
[ $# -gt 0 ] && shift
IDS="$*"
[ -z "$IDS" ] && IDS="C01 C02 C03 C04 C05 C06 C07 C08 C09 C10 C11 C12 C13 C14 C15 C16 C17 C18 C19 C20"
S=${VFCOV_DIR:-/tmp/vfcov}
mkdir -p "$S/prof" "$S/out" "$S/cov"
BIN=/root/.rustup/toolchains/nightly-x86_64-unknown-linux-gnu/lib/rustlib/x86_64-unknown-linux-gnu/bin
export RUSTUP_TOOLCHAIN=nightly
export RUSTFLAGS="-Cinstrument-coverage"
export LLVM_PROFILE_FILE="$S/prof/%p-%8m.profraw"
export VERIF_TARGET="$S/target" VERIF_OUT="$S/out" CARGO_NET_OFFLINE=true
[ -n "$VFCOV_SKIP_RUN" ] && IDS=""
for id in $IDS; do
  s=$(date +%s)
  ./check "$id" "$TIER" > "$S/out/$id.log" 2>&1 || true
  echo "$id $(tail -1 "$S/out/$id.log" | cut -c1-120) ($(( $(date +%s) - s )) s)"
done
"$BIN/llvm-profdata" merge --failure-mode=all -sparse "$S"/prof/*.profraw -o "$S/cov/all.profdata"
OBJ="-object $S/target/release/jdrive"
[ -x "$S/target/debug/jdrive" ] && OBJ="$OBJ -object $S/target/debug/jdrive"
[ -x "$S/target/bin/release/jawk" ] && OBJ="$OBJ -object $S/target/bin/release/jawk"
"$BIN/llvm-cov" report $OBJ -instr-profile "$S/cov/all.profdata" --ignore-filename-regex='(\.cargo|rustc|/verif/)' > "$S/cov/summary.txt"
"$BIN/llvm-cov" show $OBJ -instr-profile "$S/cov/all.profdata" --ignore-filename-regex='(\.cargo|rustc|/verif/)' \
    -show-line-counts-or-regions=false -show-regions=false > "$S/cov/show.txt"
python3 - "$S/cov/show.txt" > "$S/cov/uncovered.txt" <<'PY'
import re, sys
cur = None
for ln in open(sys.argv[1], errors="replace"):
    m = re.match(r"^(/\S+\.rs):$", ln.strip())
    if m:
        cur = m.group(1)
        continue
    m = re.match(r"^\s*(\d+)\|\s*0\|(.*)$", ln)
    if m and cur and "#[cfg(test)]" not in ln:
        print("%s:%s:%s" % (cur, m.group(1), m.group(2).rstrip()))
PY
tail -1 "$S/cov/summary.txt"
echo "uncovered lines: $(wc -l < "$S/cov/uncovered.txt")  ($S/cov/uncovered.txt)"
