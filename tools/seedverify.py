#!/usr/bin/env python3
"""Development tool: confirm that a candidate seeded change does what its author says.

  tools/seedverify.py <dir with patch.diff and demo.sh> [--clean-bin path]

In a scratch worktree of /repo HEAD (under /tmp/seedrun): apply the patch, run the repo's own
test suite (must be 158 passed / 0 failed), build the binary, run demo.sh against it (must exit
non-zero) and against a binary of the unmodified tree (must exit 0).  Prints a JSON summary and
removes the worktree with its build output.
"""
import json
import os
import re
import shutil
import subprocess
import sys


def sh(cmd, **kw):
    return subprocess.run(cmd, stdout=subprocess.PIPE, stderr=subprocess.STDOUT, **kw)


def clean_binary():
    base = "/tmp/seedrun/clean"
    head = sh(["git", "-C", "/repo", "rev-parse", "HEAD"]).stdout.decode().strip()
    stamp = base + "/HEAD"
    binp = base + "/target/debug/jawk"
    if os.path.exists(binp) and os.path.exists(stamp) and open(stamp).read() == head:
        return binp
    shutil.rmtree(base, ignore_errors=True)
    os.makedirs(base)
    sh(["git", "-C", "/repo", "worktree", "prune"])
    r = sh(["git", "-C", "/repo", "worktree", "add", "--detach", base + "/repo", "HEAD"])
    assert r.returncode == 0, r.stdout
    env = dict(os.environ, CARGO_NET_OFFLINE="true", CARGO_TARGET_DIR=base + "/target")
    r = sh(["cargo", "build", "--offline"], cwd=base + "/repo", env=env)
    assert r.returncode == 0, r.stdout.decode()[-2000:]
    sh(["git", "-C", "/repo", "worktree", "remove", "--force", base + "/repo"])
    open(stamp, "w").write(head)
    return binp


def main():
    d = os.path.abspath(sys.argv[1])
    name = os.path.basename(os.path.dirname(d)) + "-" + os.path.basename(d)
    res = {"dir": d}
    clean = clean_binary()
    base = "/tmp/seedrun/verify-%s-%d" % (name, os.getpid())
    wt = base + "/repo"
    os.makedirs(base)
    r = sh(["git", "-C", "/repo", "worktree", "add", "--detach", wt, "HEAD"])
    try:
        r = sh(["git", "-C", wt, "apply", os.path.join(d, "patch.diff")])
        res["applies"] = r.returncode == 0
        if not res["applies"]:
            res["apply_output"] = r.stdout.decode()[-500:]
            print(json.dumps(res))
            return 1
        st = sh(["git", "-C", wt, "diff", "--stat"]).stdout.decode()
        res["files"] = [l.split("|")[0].strip() for l in st.splitlines() if "|" in l]
        env = dict(os.environ, CARGO_NET_OFFLINE="true", CARGO_TARGET_DIR=base + "/target")
        r = sh(["cargo", "test", "--workspace", "--no-fail-fast", "--offline"], cwd=wt, env=env)
        out = r.stdout.decode("utf-8", "replace")
        passed = sum(int(m) for m in re.findall(r"test result: \w+\. (\d+) passed", out))
        failed = sum(int(m) for m in re.findall(r"test result: \w+\. \d+ passed; (\d+) failed", out))
        res["tests_passed"], res["tests_failed"], res["tests_exit"] = passed, failed, r.returncode
        r = sh(["cargo", "build", "--offline"], cwd=wt, env=env)
        res["builds"] = r.returncode == 0
        demo = os.path.join(d, "demo.sh")
        if os.path.exists(demo):
            r1 = sh(["sh", demo, base + "/target/debug/jawk"], cwd=d, timeout=300)
            r0 = sh(["sh", demo, clean], cwd=d, timeout=300)
            res["demo_patched_exit"] = r1.returncode
            res["demo_clean_exit"] = r0.returncode
            res["demo_patched_tail"] = r1.stdout.decode("utf-8", "replace")[-600:]
            res["demo_clean_tail"] = r0.stdout.decode("utf-8", "replace")[-300:]
        res["confirmed"] = bool(res.get("builds") and passed == 158 and failed == 0 and res.get("demo_patched_exit", 0) != 0
                                and res.get("demo_clean_exit", 1) == 0)
    finally:
        sh(["git", "-C", "/repo", "worktree", "remove", "--force", wt])
        shutil.rmtree(base, ignore_errors=True)
        sh(["git", "-C", "/repo", "worktree", "prune"])
    print(json.dumps(res))
    return 0 if res.get("confirmed") else 1


if __name__ == "__main__":
    sys.exit(main())
