#!/usr/bin/env python3
"""Scrape name / aliases / arity / description / examples of every function from a jawk source tree.

usage: scrape_functions.py <repo> [out.json]     (run once on the pinned tree -> vf/function_table.json;
                                                  at run time only the examples are re-scraped to re-validate the evaluator)
"""
import json
import os
import re
import sys

STR = r'"((?:[^"\\]|\\.)*)"'


def unrust(s):
    out = []
    i = 0
    while i < len(s):
        c = s[i]
        if c == "\\":
            n = s[i + 1]
            if n == "n":
                out.append("\n")
            elif n == "t":
                out.append("\t")
            elif n == "r":
                out.append("\r")
            elif n == "0":
                out.append("\0")
            elif n == "u":
                j = s.index("}", i)
                out.append(chr(int(s[i + 3:j], 16)))
                i = j + 1
                continue
            elif n == "\n":
                # line continuation: skip following whitespace
                i += 2
                while i < len(s) and s[i] in " \t\n":
                    i += 1
                continue
            else:
                out.append(n)
            i += 2
        else:
            out.append(c)
            i += 1
    return "".join(out)


def scrape(repo):
    root = os.path.join(repo, "src", "functions")
    fns = []
    for dp, dn, fnames in os.walk(root):
        for f in sorted(fnames):
            if not f.endswith(".rs"):
                continue
            path = os.path.join(dp, f)
            src = open(path, encoding="utf-8").read()
            for m in re.finditer(r'FunctionDefinitions::new\(\s*' + STR + r'\s*,\s*(\d+|usize::MAX)\s*,\s*(\d+|usize::MAX)\s*,', src):
                name = unrust(m.group(1))
                mn = int(m.group(2))
                mx = None if m.group(3) == "usize::MAX" else int(m.group(3))
                # the builder chain after the closure: from the matching position to the end of the function
                rest = src[m.end():]
                nxt = re.search(r'FunctionDefinitions::new\(', rest)
                body = rest[:nxt.start()] if nxt else rest
                # cut at test module
                t = body.find("#[cfg(test)]")
                if t >= 0:
                    body = body[:t]
                aliases = [unrust(a) for a in re.findall(r'\.add_alias\(\s*' + STR + r'\s*\)', body)]
                desc = [unrust(a) for a in re.findall(r'\.add_description_line\(\s*' + STR + r'\s*,?\s*\)', body)]
                examples = []
                for em in re.finditer(r'\.add_example\(', body):
                    # balanced parenthesis scan
                    i = em.end()
                    depth = 1
                    instr = False
                    while i < len(body) and depth:
                        ch = body[i]
                        if instr:
                            if ch == "\\":
                                i += 1
                            elif ch == '"':
                                instr = False
                        else:
                            if ch == '"':
                                instr = True
                            elif ch == "(":
                                depth += 1
                            elif ch == ")":
                                depth -= 1
                        i += 1
                    ex = body[em.end():i - 1]
                    e = {"arguments": []}
                    for am in re.finditer(r'\.add_argument\(\s*(?:r#"(.*?)"#|' + STR + r')\s*,?\s*\)', ex, re.S):
                        e["arguments"].append(am.group(1) if am.group(1) is not None else unrust(am.group(2)))
                    im = re.search(r'\.input\(\s*(?:r#"(.*?)"#|' + STR + r')\s*,?\s*\)', ex, re.S)
                    if im:
                        e["input"] = im.group(1) if im.group(1) is not None else unrust(im.group(2))
                    om = re.search(r'\.expected_output\(\s*' + STR + r'\s*,?\s*\)', ex)
                    rm = re.search(r'\.expected_output\(\s*r#"(.*?)"#\s*,?\s*\)', ex, re.S)
                    if rm:
                        e["expected_output"] = rm.group(1)
                    elif om:
                        e["expected_output"] = unrust(om.group(1))
                    elif ".validate_output(" in ex or ".expected_json(" in ex:
                        e["custom"] = True
                    else:
                        e["expected_nothing"] = True
                    if ".more_or_less()" in ex:
                        e["more_or_less"] = True
                    examples.append(e)
                fns.append({"name": name, "aliases": aliases, "min": mn, "max": mx,
                            "group": os.path.relpath(path, root), "description": desc, "examples": examples})
    fns.sort(key=lambda f: f["name"])
    return fns


if __name__ == "__main__":
    fns = scrape(sys.argv[1])
    if len(sys.argv) > 2:
        with open(sys.argv[2], "w") as f:
            json.dump(fns, f, indent=1, ensure_ascii=True)
    print("functions", len(fns), "aliases", sum(len(f["aliases"]) for f in fns), "examples", sum(len(f["examples"]) for f in fns))
