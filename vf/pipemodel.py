"""Reference pipeline: the documented stages as pure list transformations (SEMANTICS.md section 4)."""
import functools

from . import exprmodel as em


class Cfg:
    def __init__(self):
        self.only_oa = False
        self.vars = {}          # name -> literal value
        self.macros = {}        # name -> ast
        self.split = None       # ast
        self.filter = None      # ast
        self.selects = []       # (name, ast)
        self.unique = False
        self.sorts = []         # (ast, desc)
        self.skip = 0
        self.take = None
        self.group = None       # ast
        self.merge = False


def eq_key(v):
    """Canonical key under the documented equality (numbers by value, object members as a set)."""
    if v is em.NOTHING:
        return ("nothing",)
    if v is None or isinstance(v, (bool, str)):
        return ("v", type(v).__name__, v)
    if isinstance(v, (int, float)):
        from fractions import Fraction
        if isinstance(v, int) and abs(v) >= 2 ** 53:
            raise em.Unspecified("integer beyond 2^53 compared")
        return ("n", Fraction(v))
    if isinstance(v, list):
        return ("a", tuple(eq_key(x) for x in v))
    if isinstance(v, dict):
        return ("o", tuple(sorted((k, eq_key(x)) for k, x in v.items())))
    raise em.Unspecified("marker value compared")


def order_key(v):
    """Like eq_key, but members in their own order (tells member-order permutations apart)."""
    if isinstance(v, list):
        return ("a", tuple(order_key(x) for x in v))
    if isinstance(v, dict):
        return ("o", tuple((k, order_key(x)) for k, x in v.items()))
    return eq_key(v)


def run(cfg, values, env=None):
    """Returns the list of expected output rows (model values).  May raise em.Unspecified."""
    vals = [em.normalise(v) for v in values]
    if cfg.only_oa:
        vals = [v for v in vals if isinstance(v, (list, dict))]
    vars_ = {k: em.normalise(v) for k, v in cfg.vars.items()}
    ctxs = [em.Ctx(v, (), vars_, cfg.macros, {}, env or {}) for v in vals]
    if cfg.split is not None:
        out = []
        for c in ctxs:
            arr = em.ev(cfg.split, c)
            em.plain(arr)
            if isinstance(arr, list):
                for x in arr:
                    nc = c.push(x)
                    nc.sels = {}
                    out.append(nc)
        ctxs = out
    if cfg.filter is not None:
        ctxs = [c for c in ctxs if em.ev(cfg.filter, c) is True]
    rows = []    # (ctx, [(name, value)])
    for c in ctxs:
        sel = []
        sels = {}
        for name, ast in cfg.selects:
            cc = em.Ctx(c.input, c.parents, c.vars, c.macros, dict(sels), c.env)
            v = em.ev(ast, cc)
            em.to_plain(v)
            sel.append((name, v))
            if v is not em.NOTHING and name not in sels:
                sels[name] = v
        cc = em.Ctx(c.input, c.parents, c.vars, c.macros, sels, c.env)
        rows.append((cc, sel))
    if cfg.unique:
        seen = {}
        out = []
        for c, sel in rows:
            key = tuple(eq_key(v) for _, v in sel) if cfg.selects else eq_key(c.input)
            okey = tuple(order_key(v) for _, v in sel) if cfg.selects else order_key(c.input)
            if key in seen:
                if seen[key] != okey:
                    # equal for `=`, members in another order: what --unique does with such a pair is outside C10's (and so
                    # this model's) domain - see C10's quantifier
                    raise em.Unspecified("member-order permutations under --unique")
                continue
            seen[key] = okey
            out.append((c, sel))
        rows = out
    if cfg.sorts:
        keyed = []
        for i, (c, sel) in enumerate(rows):
            ks = []
            drop = False
            for ast, desc in cfg.sorts:
                k = em.ev(ast, c)
                em.plain(k) if not isinstance(k, (list, dict)) else None
                if k is em.NOTHING:
                    drop = True
                    break
                ks.append(k)
            if not drop:
                keyed.append((ks, i, (c, sel)))

        def cmpf(a, b):
            for (x, y, (_, desc)) in zip(a[0], b[0], cfg.sorts):
                r = em.cmp(x, y)
                if desc:
                    r = -r
                if r:
                    return r
            return a[1] - b[1]
        keyed.sort(key=functools.cmp_to_key(cmpf))
        rows = [x for _, _, x in keyed]
    rows = rows[cfg.skip:]
    if cfg.take is not None:
        rows = rows[:cfg.take]

    def build(c, sel):
        if not cfg.selects:
            return c.input
        d = {}
        for name, v in sel:
            if v is not em.NOTHING:
                d[name] = v
        return d
    if cfg.group is not None:
        g = {}
        for c, sel in rows:
            k = em.ev(cfg.group, c)
            em.plain(k) if not isinstance(k, (list, dict)) else None
            if isinstance(k, str):
                g.setdefault(k, []).append(build(c, sel))
        return [g]
    if cfg.merge:
        return [[build(c, sel) for c, sel in rows]]
    return [build(c, sel) for c, sel in rows]
