"""RFC 4180 reader (skip-initial-space dialect): quoted fields, doubled quotes, CR/LF inside quotes,
the blank after each comma is ignored, a line break outside quotes ends the record."""


class CsvError(Exception):
    pass


def read(data, newline="\n"):
    """data: str.  Returns list of records, each a list of (text, was_quoted)."""
    recs = []
    rec = []
    i = 0
    n = len(data)
    if n == 0:
        return recs
    while True:
        # start of a field: skip one initial blank (dialect) - only directly after a comma
        field = []
        quoted = False
        if i < n and data[i] == '"':
            quoted = True
            i += 1
            while True:
                if i >= n:
                    raise CsvError("unterminated quoted field")
                c = data[i]
                if c == '"':
                    if i + 1 < n and data[i + 1] == '"':
                        field.append('"')
                        i += 2
                        continue
                    i += 1
                    break
                field.append(c)
                i += 1
            if i < n and data[i] not in (",", "\n", "\r"):
                raise CsvError("text after closing quote at %d" % i)
        else:
            while i < n and data[i] not in (",", "\n", "\r"):
                if data[i] == '"':
                    raise CsvError("quote inside an unquoted field at %d" % i)
                field.append(data[i])
                i += 1
        rec.append(("".join(field), quoted))
        if i >= n:
            recs.append(rec)
            return recs
        c = data[i]
        if c == ",":
            i += 1
            if i < n and data[i] == " ":
                i += 1
            continue
        # record end
        if c == "\r" and i + 1 < n and data[i + 1] == "\n":
            i += 2
        else:
            i += 1
        recs.append(rec)
        rec = []
        if i >= n:
            return recs
