"""Expression AST, type-directed generator and printer (with spelling variants) for jawk selections.

AST (tuples):
  ("lit", value)
  ("path", nparents, (("k", key) | ("i", index), ...))       "." when steps are empty
  ("call", name, (args...))                                   name is the canonical function name
  ("var", name) ("macro", name) ("sel", name)
"""
import json
import os

from . import jsonmodel as jm

TABLE = json.load(open(os.path.join(os.path.dirname(__file__), "function_table.json")))
FUNCS = {f["name"]: f for f in TABLE}
ALIASES = {f["name"]: f["aliases"] for f in TABLE}
ALIAS_OF = {}
for _f in TABLE:
    for _a in _f["aliases"]:
        ALIAS_OF[_a] = _f["name"]
IMPURE = ("exec", "trigger", "now")
PURE = [f["name"] for f in TABLE if f["name"] not in IMPURE]

# --------------------------------------------------------------------------
# records: the inputs expressions are evaluated on

SCHEMA = {
    "n": "num", "i": "int", "s": "str", "u": "str", "b": "bool", "z": "null",
    "arr": "arr:num", "strs": "arr:str", "objs": "arr:obj", "obj": "obj", "nest": "obj", "nas": "nas", "t": "epoch",
    "bools": "arr:bool", "lists": "arr:arr", "tw": "obj",
    # member names outside ASCII (their UTF-8 bytes include 0x85 and 0xA0, which some classifications take for white space)
    "citt\u00e0": "int", "\u0432\u044b\u0445\u043e\u0434": "str",
}
# (pat / fmt / which are not in SCHEMA: they are only reached through the dedicated argument forms below)
# unequal objects that feed identical byte streams to a hasher that writes no lengths (see C10): equality must tell them apart
TWINS = [{"a": {"b": 1}}, {"a": {}, "b": 1}, {"a": {"b": 1, "c": 2}}, {"a": {"b": 1}, "c": 2}]
ELEM = {"arr:num": "num", "arr:str": "str", "arr:obj": "eobj", "arr:bool": "bool", "arr:any": "any", "arr:arr": "arr:num"}
WORDS = ["a", "b", "ab", "abc", "x", "hello", "a,b", "k1", "", "Zed", "10", "a b", "é", "日本", "x-y_z", "aé", "bb"]
NONASCII = ["é", "日本語", "aéb", "ñandú", "ü", "Ωmega", "añ", "éé"]


def gen_eobj(rng):
    d = {}
    if rng.random() < 0.9:
        d["n"] = rng.choice((0, 1, 2, 3, -1, 2.5, 10))
    if rng.random() < 0.9:
        d["s"] = rng.choice(WORDS)
    if rng.random() < 0.08:
        # member names that some functions use themselves for what they build (entries, indexed, fold, zip)
        d[rng.choice(("key", "value", "index", "so_far", ".0", "0"))] = rng.choice((0, "v", None, [1]))
    return d


def gen_record(rng):
    r = {}

    def maybe(k, f, p=0.9):
        if rng.random() < p:
            r[k] = f()
    maybe("n", lambda: rng.choice((0, 1, -1, 2, 3.5, -2.25, 10, 100, 7, 1e3, 0.5, 0.49999999999999994, -0.49999999999999994, 2.5, -2.5, 0.5000000000000001)))
    maybe("i", lambda: rng.choice((0, 1, 2, 3, 4, 5, 10)))
    maybe("s", lambda: rng.choice(WORDS))
    maybe("u", lambda: rng.choice(NONASCII))
    maybe("citt\u00e0", lambda: rng.choice((0, 1, 2, 20121)), 0.6)
    maybe("\u0432\u044b\u0445\u043e\u0434", lambda: rng.choice(WORDS), 0.6)
    maybe("b", lambda: rng.random() < 0.5)
    maybe("z", lambda: None, 0.5)
    # now and then a list of more than 20 elements over a small domain (many ties): library sorts change algorithm with size
    long = rng.random() < 0.06
    maybe("arr", lambda: [rng.choice((0, 1, 2, 3, -1, 2.5, 10, 1)) for _ in range(rng.choice((0, 1, 2, 3, 4, 6)) if not long else rng.choice((21, 33, 48)))])
    maybe("strs", lambda: [rng.choice(WORDS) for _ in range(rng.choice((0, 1, 2, 3, 5)) if not long else rng.choice((22, 40)))])
    maybe("objs", lambda: [gen_eobj(rng) for _ in range(rng.choice((0, 1, 2, 3, 4)) if not long else rng.choice((21, 30, 45)))])
    maybe("obj", lambda: {k: rng.choice((0, 1, 2, 3, -1, 5)) for k in rng.sample(["a", "b", "c", "d", "k1", "z"], rng.choice((0, 1, 2, 3, 4)))})
    maybe("nest", lambda: {"a": {"b": [1, {"c": rng.choice(("deep", 1, None))}]}, "k": rng.choice(WORDS)}, 0.7)
    maybe("nas", lambda: rng.choice(("1", "2.5", "-3", "10e2", "0.001", "007", "1.50")))
    maybe("t", lambda: rng.choice((0, 86400, 1700000000, 951782400, 1234567890, 90.25, 90.5, 90.75, 90.5, 1700000000.125, 1700000000.875)))
    maybe("bools", lambda: [rng.random() < 0.6 for _ in range(rng.choice((0, 1, 2, 3)))], 0.7)
    maybe("lists", lambda: [[rng.choice((1, 2, 3)) for _ in range(rng.choice((0, 1, 2)))] for _ in range(rng.choice((0, 1, 2, 3)))], 0.7)
    maybe("tw", lambda: rng.choice(TWINS), 0.3)
    # integers that share a double with a neighbour (not part of the schema: only read as they are, never computed with)
    maybe("big", lambda: rng.choice((2 ** 53, 2 ** 53 + 1, 2 ** 64 - 1, 2 ** 64 - 2, -(2 ** 63), -(2 ** 63) + 1, 2 ** 63, 2 ** 63 - 1)), 0.3)
    # arguments that are usually literals in programs may just as well come from the record: a pattern, a time format
    # (also one that is valid only up to a point), the name of a variable
    maybe("pat", lambda: rng.choice(REGEXES), 0.35)
    maybe("fmt", lambda: rng.choice(FORMATS + ["%Y-%Q", "%H:%M:%", "%F %T %!"]), 0.35)
    maybe("zfmt", lambda: rng.choice(["%F %T %z", "%Y-%m-%d %H:%M:%S %z", "%d/%m/%Y %z", "%F %z", "%FT%T%z", "%Y-%m-%d %T %z"]), 0.4)
    maybe("which", lambda: rng.choice(VARNAMES), 0.35)
    maybe("sel", lambda: rng.choice([".n", "(+ .i 1)", ".s", "(size .arr)", ".obj.a", "(concat .s \"!\")", ".", "(first .strs)", "(* .n 2)",
                                     # a selection text that parses a further selection text, also taken from the record
                                     "(parse_selection (default .inner \".n\"))", "(push [] (parse_selection .inner) .i)",
                                     # a selection text may carry a name (`<selection>=<name>`); the name is not the selection
                                     ".n=.i", ".i", ".i=.n", ".s=.n", ".n", "(+ .i 1)=.n"]), 0.35)
    maybe("inner", lambda: rng.choice([".i", ".s", "(size .arr)", "(+ .n 1)", ".b", "(parse_selection \".i\")"]), 0.4)
    return r


def gen_input(rng):
    """Mostly records, sometimes any other JSON value (so ill-typed access arises naturally)."""
    r = rng.random()
    if r < 0.8:
        return gen_record(rng)
    if r < 0.9:
        return rng.choice((None, True, False, 0, 1, -2.5, "", "abc", "é", [], [1, 2, 3], ["a", "b"], {}, {"a": 1}, [[1], [2]]))
    return jm.gen_value(rng, 0, 2, [c for c in jm.STRING_CLASSES if c not in ("astral", "empty")])


# --------------------------------------------------------------------------
# generator

class Scope:
    def __init__(self, dot="rec", parents=(), vars_=None, macros=None, sels=None, allow_sel=True, in_macro=False):
        self.in_macro = in_macro    # inside a macro body: no free macro references (they could be cyclic at the use site)
        self.dot = dot              # kind of "."
        self.parents = tuple(parents)   # kinds of ^, ^^ ...
        self.vars = dict(vars_ or {})   # name -> kind
        self.macros = dict(macros or {})  # name -> kind of result
        self.sels = dict(sels or {})    # name -> kind
        self.allow_sel = allow_sel

    def push(self, dot):
        # with_inupt resets the selected names
        return Scope(dot, (self.dot,) + self.parents, self.vars, self.macros, {}, self.allow_sel, self.in_macro)

    def with_var(self, name, kind):
        s = Scope(self.dot, self.parents, self.vars, self.macros, self.sels, self.allow_sel, self.in_macro)
        s.vars[name] = kind
        return s

    def with_macro(self, name, kind):
        s = Scope(self.dot, self.parents, self.vars, self.macros, self.sels, self.allow_sel, self.in_macro)
        s.macros[name] = kind
        return s

    def macro_body(self):
        return Scope(self.dot, self.parents, self.vars, {}, self.sels, self.allow_sel, True)


EXTREME_NUMS = [-(2 ** 63), -(2 ** 63) + 1, -1, 0, 1, 2 ** 63 - 1, 2 ** 63, 2 ** 64 - 1, 2 ** 32, 2 ** 53 + 1, 1e308, -1e308, 5e-324, 0.5,
                -0.5, 1e19, -1e19, 2.5e-10, -(2 ** 31), 2 ** 31 - 1, 65536, 1e15, 4.5e15]
KINDS = ["num", "int", "str", "bool", "null", "arr:num", "arr:str", "arr:obj", "arr:bool", "arr:arr", "obj", "any", "nas"]
VARNAMES = ["v", "w", "acc", "x1", "tmp_2", "größe", "数"]
MACRONAMES = ["m", "f1", "helper", "añadir"]
REGEXES = ["a", "^a", "b$", "a.c", "[a-c]+", "(a)(b)?", "x|y", "[0-9]+", "(é)", "a*", "\\\\d+", "(", "[", "h(el+)o", "^$",
           # groups that exist but may not take part in a match (optional, alternation): group numbers must not shift
           "(a)?(b)", "(x)|(y)|(a)", "(h)?(e)?(l+)", "([0-9]+)?-?([a-z]+)", "(a)|(b)"]
REGEX_SUBJECTS = [("^\\w{1,100}$", ["abc", "a b", "", "x" * 100, "x" * 101, "a_1"]), ("^[\\w.-]{1,64}@[\\w.-]{1,64}$", ["john.doe@example.com", "a@b", "@", "no", "a@" + "b" * 65]),
                  ("^(\\w{1,40})-(\\w{1,40})$", ["ab-cd", "ab-", "x-y-z"]),
                  ("(a)?(b)", ["b", "ab", "xb", "a"]), ("(x)|(y)|(a)", ["a", "y", "x", "zya"]), ("(h)?(e)?(l+)", ["hello", "ello", "llo", "hl"]),
                  ("([0-9]+)?-?([a-z]+)", ["12-ab", "ab", "-ab", "7x"]), ("(a)|(b)", ["b", "a", "cb"]), ("(a)(b)?", ["a", "ab", "ba"]),
                  ("h(el+)o", ["hello", "helo", "ho"]), ("((a)|(b))+(c)?", ["ab", "bc", "abc", "c"]), ("(?:a)(b)(?P<n>c)?", ["ab", "abc"]), ("(\u00e9)?(.)", ["\u00e9x", "x"])]
FORMATS = ["%Y-%m-%d", "%H:%M:%S", "%Y-%m-%dT%H:%M:%S", "%F %T", "%j", "%Y", "%d/%m/%Y %H:%M", "%%", "%Q", "%", "%Y-%m-%d %z",
           "%F %T%.3f", "%Y-%m-%d %H:%M:%S%.3f", "%T%.6f", "%F %T%.9f"]
ENVNAMES = ["JAWK_VF_A", "JAWK_VF_E", "JAWK_VF_MISSING", "JAWK_VF_U", "JAWK_VF_L1"]


class Gen:
    def __init__(self, rng, ill_typed=0.08, maxdepth=4, funcs=None, nonascii=0.15, big_n=0.05, allow_parse_selection=True, extreme_n=0.0):
        self.rng = rng
        self.ill = ill_typed
        self.maxdepth = maxdepth
        self.funcs = set(funcs) if funcs else None
        self.nonascii = nonascii
        self.big_n = big_n
        self.allow_parse_selection = allow_parse_selection
        self.extreme_n = extreme_n      # rate of 64-bit / double boundary numbers among numeric literals (C05)
        self.computed_names = True      # (: <expression>) with a computed variable name (C12 substitutes names textually: off there)
        self.used = set()

    # ---- leaves
    def lit(self, kind):
        r = self.rng
        if kind in ("num", "int") and self.extreme_n and r.random() < self.extreme_n:
            return ("lit", r.choice(EXTREME_NUMS))
        if kind in ("num",):
            return ("lit", r.choice((0, 1, 2, 3, -1, 2.5, 10, -7, 0.5, 100, 1e2, 3.0)))
        if kind == "int":
            if r.random() < self.big_n:
                return ("lit", r.choice((10000, 9999, 2 ** 32, 2 ** 63, 2 ** 64 - 1, 18446744073709551615)))
            return ("lit", r.choice((0, 0, 1, 1, 2, 3, 4, 5, 7, 10)))
        if kind == "epoch":
            return ("lit", r.choice((0, 86400, 1700000000, 951782400, 1234567890, 4000000000, -1, 1.5, 253402300800, 2 ** 62, 90.25, 90.5, 90.75,
                                     -86400, -1.5, -0.5, 0.25, -1234567890.125, 1700000000.875, -0.125, 59.5, -3600,
                                     -1e-20, -1e-12, -1e-17)))
        if kind == "str":
            if r.random() < self.nonascii:
                return ("lit", r.choice(NONASCII))
            return ("lit", r.choice(WORDS))
        if kind == "bool":
            return ("lit", r.random() < 0.5)
        if kind == "null":
            return ("lit", None)
        if kind == "arr:num":
            return ("lit", [r.choice((0, 1, 2, 3, -1, 2.5)) for _ in range(r.choice((0, 1, 2, 3, 4)))])
        if kind == "arr:str":
            return ("lit", [r.choice(WORDS) for _ in range(r.choice((0, 1, 2, 3)))])
        if kind == "arr:obj":
            return ("lit", [gen_eobj(r) for _ in range(r.choice((0, 1, 2, 3)))])
        if kind == "arr:bool":
            return ("lit", [r.random() < 0.6 for _ in range(r.choice((0, 1, 2, 3)))])
        if kind == "arr:arr":
            return ("lit", [[1, 2], [], [3]][:r.choice((0, 1, 2, 3))])
        if kind == "arr:any":
            return ("lit", [1, "a", None, [2], {"k": 1}][:r.choice((0, 2, 5))])
        if kind in ("obj", "eobj"):
            return ("lit", {k: r.choice((0, 1, 2, 3)) for k in r.sample(["a", "b", "c", "k1"], r.choice((0, 1, 2, 3)))})
        if kind == "nas":
            return ("lit", r.choice(("1", "2", "-3", "2.5", "0.001", "10e2", "007", "1.50", "123456789012345678901234567890", "-0.5", "abc")))
        if kind == "regex":
            return ("lit", r.choice(REGEXES))
        if kind == "fmt":
            return ("lit", r.choice(FORMATS))
        if kind == "zfmt":
            return ("lit", r.choice(("%F %T %z", "%d/%m/%Y %z", "%FT%T%z")))
        return ("lit", r.choice((None, True, 0, 1, "a", [1], {"a": 1}, 2.5, "é")))

    def path_for(self, kind, sc):
        """A path expression of the wanted kind given what '.' is, or None."""
        r = self.rng
        cands = []

        def add_from(dotkind, nparents):
            if dotkind == "rec":
                for k, kk in SCHEMA.items():
                    if kk == kind or kind == "any" or (kind == "num" and kk == "int") or (kind == "str" and kk == "nas"):
                        cands.append(("path", nparents, (("k", k),)))
                if kind in ("num", "any"):
                    cands.append(("path", nparents, (("k", "arr"), ("i", r.choice((0, 1, 2, 5))))))
                    cands.append(("path", nparents, (("k", "obj"), ("k", r.choice(("a", "b", "zz"))))))
                    cands.append(("path", nparents, (("k", "nest"), ("k", "a"), ("k", "b"), ("i", 0))))
                if kind in ("str", "any"):
                    cands.append(("path", nparents, (("k", "nest"), ("k", "k"))))
                    cands.append(("path", nparents, (("k", "strs"), ("i", r.choice((0, 1, 3))))))
                if kind in ("eobj", "obj", "any"):
                    cands.append(("path", nparents, (("k", "objs"), ("i", r.choice((0, 1, 2))))))
                if kind in ("obj", "any"):
                    cands.append(("path", nparents, ()))
                    cands.append(("path", nparents, (("k", "nest"), ("k", "a"))))
            elif dotkind == "eobj":
                if kind in ("num", "any"):
                    cands.append(("path", nparents, (("k", "n"),)))
                if kind in ("str", "any"):
                    cands.append(("path", nparents, (("k", "s"),)))
                if kind in ("obj", "eobj", "any"):
                    cands.append(("path", nparents, ()))
            elif dotkind == "fold":
                if kind in ("any", "num"):
                    cands.append(("path", nparents, (("k", "value"),)))
                    cands.append(("path", nparents, (("k", "so_far"),)))
                    cands.append(("path", nparents, (("k", "index"),)))
            else:
                if dotkind == kind or kind == "any" or (kind == "num" and dotkind == "int"):
                    cands.append(("path", nparents, ()))
        add_from(sc.dot, 0)
        for n, pk in enumerate(sc.parents[:3]):
            if r.random() < 0.5:
                add_from(pk, n + 1)
        if not cands:
            return None
        return r.choice(cands)

    def leaf(self, kind, sc):
        r = self.rng
        opts = []
        p = self.path_for(kind, sc)
        if p is not None:
            opts += [p, p, p]
        opts.append(self.lit(kind))
        for name, k in sc.vars.items():
            if k == kind or kind == "any":
                opts.append(("var", name))
        for name, k in sc.macros.items():
            if k == kind or kind == "any":
                opts.append(("macro", name))
        if sc.allow_sel:
            for name, k in sc.sels.items():
                if k == kind or kind == "any":
                    opts.append(("sel", name))
        return r.choice(opts)

    # ---- calls
    def ok(self, name):
        return self.funcs is None or name in self.funcs

    def gen(self, kind, sc, depth=0):
        r = self.rng
        if r.random() < self.ill:
            kind = r.choice(KINDS)
        if depth >= self.maxdepth or r.random() < 0.25:
            return self.leaf(kind, sc)
        makers = self.makers(kind)
        makers = [m for m in makers if self.ok(m[0])]
        if not makers:
            return self.leaf(kind, sc)
        name, build = r.choice(makers)
        self.used.add(name)
        g = lambda k, s=sc: self.gen(k, s, depth + 1)
        return build(g, sc, depth)

    def body(self, kind, sc, elem, depth):
        return self.gen(kind, sc.push(elem), depth + 1)

    def arr_kind(self):
        return self.rng.choice(("arr:num", "arr:num", "arr:str", "arr:obj", "arr:bool", "arr:arr"))

    def makers(self, kind):
        r = self.rng
        C = lambda name, *args: ("call", name, tuple(args))
        M = []

        def add(name, fn):
            M.append((name, fn))
        generic = kind  # result kind wanted
        # flow (any kind)
        add("?", lambda g, sc, d: C("?", g("bool"), g(kind), g(kind)))
        add("default", lambda g, sc, d: C("default", *[g(kind) for _ in range(r.choice((1, 2, 3, 5)))]))
        add("|", lambda g, sc, d: self.pipe(kind, sc, d))
        add("set", lambda g, sc, d: self.mk_set(kind, sc, d))
        add("define", lambda g, sc, d: self.mk_define(kind, sc, d))
        add("get", lambda g, sc, d: self.mk_get(kind, g))
        add("first", lambda g, sc, d: C(r.choice(("first", "last")), g(self.arr_of(kind))))
        add("fold", lambda g, sc, d: self.mk_fold(kind, sc, d))
        add("parse", lambda g, sc, d: C("parse", C("stringify", g(kind))))
        # white space around a JSON text is not part of the value
        add("parse", lambda g, sc, d: C("parse", C("concat", ("lit", r.choice(("", " ", "\n\t"))), C("stringify", g(kind)), ("lit", r.choice((" ", "\n", "\r\n", "\t ", ""))))))
        if self.allow_parse_selection:
            add("parse_selection", lambda g, sc, d: self.mk_parse_selection(kind, sc, d))
        add("as_" + self.as_name(kind), lambda g, sc, d: C("as_" + self.as_name(kind), g(kind if r.random() < 0.7 else "any")))
        add(":", lambda g, sc, d: self.mk_varfn(kind, sc, d))
        if kind in ("num", "int", "any"):
            add("+", lambda g, sc, d: C(r.choice(("+", "*")), *[g("num") for _ in range(r.choice((2, 2, 3, 4, 6)))]))
            add("-", lambda g, sc, d: C("-", *[g("num") for _ in range(r.choice((1, 2)))]))
            add("/", lambda g, sc, d: C(r.choice(("/", "%")), g("num"), g("num")))
            # "if the second argument is 0 will return nothing": zero has several spellings (0, 0.0, -0, -0.0, 0e5)
            add("/", lambda g, sc, d: C(r.choice(("/", "%")), g("num"), r.choice((("raw", "-0"), ("lit", 0), ("lit", 0.0), ("lit", -0.0)))))
            add("abs", lambda g, sc, d: C(r.choice(("abs", "round", "ceil", "floor")), g("num")))
            add("size", lambda g, sc, d: C("size", g(r.choice(("arr:num", "obj", "str", "arr:str")))))
            add("sum", lambda g, sc, d: C("sum", g("arr:num")))
            add("parse_time", lambda g, sc, d: C("parse_time", g("str") if r.random() < 0.2 else
                                                  C("format_time", g("epoch"), ("lit", "%Y-%m-%d %H:%M:%S")), ("lit", "%Y-%m-%d %H:%M:%S")))
            add("parse_time", lambda g, sc, d: self.mk_parse_time_frac())
            add("parse_time_with_zone", lambda g, sc, d: C("parse_time_with_zone", g("str") if r.random() < 0.2 else
                                                           C("concat", C("format_time", g("epoch"), ("lit", "%F %T")), ("lit", r.choice((" +0000", " +0530", " -0800")))),
                                                           ("lit", "%F %T %z")))
            # the format comes from the record, with a fallback: it is the record's format that counts when there is one
            add("parse_time_with_zone", lambda g, sc, d: C("parse_time_with_zone",
                                                           C("concat", C("format_time", g("epoch"), ("lit", "%F %T")), ("lit", r.choice((" +0000", " +0530", " -0800")))),
                                                           self.lit_or_field("zfmt", "zfmt", sc)))
        if kind in ("str", "any"):
            add("concat", lambda g, sc, d: C("concat", *[g("str") for _ in range(r.choice((2, 2, 3, 4, 7)))]))
            add("head", lambda g, sc, d: C(r.choice(("head", "tail")), g("str"), g("int")))
            add("take", lambda g, sc, d: C(r.choice(("take", "take_last")), g("str"), g("int")))
            add("sub", lambda g, sc, d: C("sub", g("str"), g("int"), g("int")))
            add("join", lambda g, sc, d: C("join", g("arr:str"), *([g("str")] if r.random() < 0.5 else [])))
            add("stringify", lambda g, sc, d: C("stringify", g("any")))
            add("env", lambda g, sc, d: C("env", ("lit", r.choice(ENVNAMES))))
            add("base63_decode", lambda g, sc, d: C("base63_decode", ("lit", r.choice(("aGVsbG8=", "w6k=", "", "!!!", "aGVsbG8", "/w==", "YQ==",
                                                                                             # payloads that start like UTF-16 / UTF-32 / UTF-8 with a byte-order mark, of odd and even length
                                                                                             "//5oAGk=", "//4A", "/v8A", "//5oAA==", "/v8AaA==", "77u/YQ==", "77u/", "//4AAGgAAAA=", "//4=", "/v8=")))))
            add("format_time", lambda g, sc, d: C("format_time", g("epoch"), self.lit_or_field("fmt", "fmt", sc)))
            add("extract_regex_group", lambda g, sc, d: C("extract_regex_group", g("str"), self.lit_or_field("regex", "pat", sc), g("int")))
            # subjects that do match, with groups that take part and groups that do not, every group number asked for
            add("extract_regex_group", lambda g, sc, d: (lambda t: C("extract_regex_group", ("lit", r.choice(t[1])), ("lit", t[0]), ("lit", r.choice((0, 1, 2, 3, 4)))))(r.choice(REGEX_SUBJECTS if (r.random() < 0.15 and getattr(self, "heavy_regex", True)) else REGEX_SUBJECTS[3:])))
        if kind in ("nas", "any", "str"):
            add('"+"', lambda g, sc, d: C(r.choice(('"+"', '"*"')), *[g("nas") for _ in range(r.choice((2, 3)))]))
            add('"-"', lambda g, sc, d: C('"-"', *[g("nas") for _ in range(r.choice((1, 2)))]))
            add('"/"', lambda g, sc, d: C(r.choice(('"/"', '"%"')), g("nas"), g("nas")))
            add('"abs"', lambda g, sc, d: C(r.choice(('"abs"', '"round"', '"||"')), g("nas")))
        if kind in ("bool", "any"):
            add("=", lambda g, sc, d: C(r.choice(("=", "!=", "<", "<=", ">", ">=")), *self.two_same(g)))
            add("and", lambda g, sc, d: C(r.choice(("and", "or")), *[g("bool") for _ in range(r.choice((2, 2, 3, 4, 5)))]))
            add("xor", lambda g, sc, d: C("xor", g("bool"), g("bool")))
            add("not", lambda g, sc, d: C("not", g("bool")))
            add("any", lambda g, sc, d: C(r.choice(("any", "all")), g("arr:bool")))
            add("match", lambda g, sc, d: C("match", g("str"), self.lit_or_field("regex", "pat", sc)))
            add("match", lambda g, sc, d: (lambda t: C("match", ("lit", r.choice(t[1])), ("lit", t[0])))(r.choice(REGEX_SUBJECTS if (r.random() < 0.15 and getattr(self, "heavy_regex", True)) else REGEX_SUBJECTS[3:])))
            add("array?", lambda g, sc, d: C(r.choice(("array?", "object?", "string?", "number?", "bool?", "null?", "empty?")), g("any")))
            add('"<"', lambda g, sc, d: C(r.choice(('"<"', '"<="', '">"', '">="', '"="', '"!="')), g("nas"), g("nas")))
        if kind.startswith("arr") or kind == "any":
            ak = kind if kind.startswith("arr") else self.arr_kind()
            ek = ELEM.get(ak, "any")
            add("filter", lambda g, sc, d: C("filter", g(ak), self.body("bool", sc, ek, d)))
            add("sort", lambda g, sc, d: C(r.choice(("sort", "sort_unique", "reverese", "pop", "pop_first")), g(ak)))
            add("sort_by", lambda g, sc, d: C("sort_by", g(ak), self.body(r.choice(("num", "str", "any")), sc, ek, d)))
            add("take", lambda g, sc, d: C(r.choice(("take", "take_last")), g(ak), g("int")))
            add("sub", lambda g, sc, d: C("sub", g(ak), g("int"), g("int")))
            add("push", lambda g, sc, d: C(r.choice(("push", "push_front")), g(ak), *[g(ek if ek != "eobj" else "obj") for _ in range(r.choice((1, 2, 3, 5)))]))
            add("map", lambda g, sc, d: self.mk_map(ak, sc, d))
            add("flat_map", lambda g, sc, d: C("flat_map", g("arr:arr" if r.random() < 0.5 else self.arr_kind()), self.body(ak, sc, "arr:num", d)))
            if ak == "arr:num":
                add("range", lambda g, sc, d: C("range", r.choice((("lit", r.choice((0, 1, 2, 3, 5, 10))), ("path", 0, (("k", "i"),)), ("call", "size", (g("arr:num"),))))))
                add("values", lambda g, sc, d: C("values", g("obj")))
            if ak == "arr:str":
                add("keys", lambda g, sc, d: C("keys", g("obj")))
                add("split", lambda g, sc, d: C("split", g("str"), ("lit", r.choice((",", " ", "a", "b", "é", "ab", "", "日", "aa"))) if r.random() < 0.8 else g("str")))
            if ak == "arr:obj":
                add("indexed", lambda g, sc, d: C("indexed", g(self.arr_kind())))
                add("entries", lambda g, sc, d: C("entries", g("obj")))
                add("zip", lambda g, sc, d: C("zip", *[g(self.arr_kind()) for _ in range(r.choice((2, 2, 3, 4)))]) if r.random() < 0.5 else
                    C("cross", *[g(self.arr_kind()) for _ in range(r.choice((2, 2, 3)))]))
                # many lists: the members of a row stay in the order of the lists (.0 .1 .2 ... .10 .11), whatever their number
                # (cross: at most three of the lists hold two elements, so a row set stays below a hundred rows)
                add("zip", lambda g, sc, d: (lambda fn, n: C(fn, *[("lit", [r.choice((0, 1, "a", None, [2]))] * (r.choice((1, 1, 1, 2, 0)) if fn == "zip" or i < 3 else 1)) for i in range(n)]))(
                    r.choice(("zip", "zip", "cross")), r.choice((10, 11, 12, 13))))
                add('"sort_by"', lambda g, sc, d: C('"sort_by"', ("lit", [{"n": 1, "s": "10"}, {"n": 2, "s": "9"}, {"n": 3, "s": "1e1"}, {"n": 4, "s": "x"}]),
                                                    ("path", 0, (("k", "s"),))))
        if kind in ("obj", "any"):
            add("put", lambda g, sc, d: C(r.choice(("put", "insert_if_absent", "replace_if_exists")), g("obj"), self.keylit(), g("any")))
            add("filter_keys", lambda g, sc, d: C("filter_keys", g("obj"), self.body("bool", sc, "str", d)))
            add("filter_values", lambda g, sc, d: C("filter_values", g("obj"), self.body("bool", sc, "num", d)))
            add("map_values", lambda g, sc, d: C("map_values", g("obj"), self.body(r.choice(("num", "str", "any")), sc, "num", d)))
            add("map_keys", lambda g, sc, d: C("map_keys", g("obj"), self.mk_keymapper(sc, d)))
            add("sort_by_keys", lambda g, sc, d: C(r.choice(("sort_by_keys", "sort_by_values")), g("obj")))
            add("sort_by_values_by", lambda g, sc, d: C("sort_by_values_by", g("obj"), self.body("num", sc, "num", d)))
            add("group_by", lambda g, sc, d: self.mk_group_by(sc, d))
            add("take", lambda g, sc, d: C(r.choice(("take", "take_last")), g("obj"), g("int")))
            add("sub", lambda g, sc, d: C("sub", g("obj"), g("int"), g("int")))
        return M

    def mk_parse_time_frac(self):
        """parse_time / parse_time_with_zone on a literal with fractional seconds (%.f, %.3f, %.6f, %.9f)."""
        r = self.rng
        spec, nd = r.choice((("%.f", r.choice((1, 2, 3, 4, 5, 6))), ("%.3f", 3), ("%.6f", 6), ("%.9f", 9), ("%.f", 6), ("%.6f", 6)))
        digits = "".join(r.choice("0123456789") for _ in range(min(nd, 6))) + "0" * max(0, nd - 6)
        if r.random() < 0.3:
            digits = r.choice(("000250", "360123", "000001", "999999", "500000", "0004"))[:nd].ljust(nd, "0") if nd >= 4 else digits
        date = r.choice(("1970-01-01 00:00:01", "2023-12-03 13:51:55", "2001-09-09 01:46:40", "1999-12-31 23:59:59", "2038-01-19 03:14:07"))
        base = r.choice(("%Y-%m-%d %H:%M:%S", "%F %T"))
        if r.random() < 0.4:
            zone = r.choice((" +0000", " +0530", " -0800"))
            self.used.add("parse_time_with_zone")
            return ("call", "parse_time_with_zone", (("lit", date + "." + digits + zone), ("lit", base + spec + " %z")))
        return ("call", "parse_time", (("lit", date + "." + digits), ("lit", base + spec)))

    def as_name(self, kind):
        return {"num": "number", "int": "number", "str": "string", "nas": "string", "bool": "boolean", "obj": "object", "eobj": "object"}.get(
            kind, "array" if kind.startswith("arr") else self.rng.choice(("number", "string", "boolean", "object", "array")))

    def arr_of(self, kind):
        return {"num": "arr:num", "int": "arr:num", "str": "arr:str", "bool": "arr:bool", "eobj": "arr:obj", "obj": "arr:obj",
                "arr:num": "arr:arr"}.get(kind, self.arr_kind())

    def keylit(self):
        return ("lit", self.rng.choice(("a", "b", "c", "new", "k1", "")))

    def two_same(self, g):
        k = self.rng.choice(("num", "num", "str", "any", "bool", "arr:num", "obj"))
        return g(k), g(k)

    def mk_get(self, kind, g):
        r = self.rng
        if kind in ("num", "int", "any") and r.random() < 0.5:
            return ("call", "get", (g("obj"), self.keylit()))
        ak = self.arr_of(kind)
        return ("call", "get", (g(ak), g("int")))

    def mk_map(self, ak, sc, d):
        r = self.rng
        src = self.arr_kind()
        ek = ELEM.get(src, "any")
        want = ELEM.get(ak, "any")
        if want == "eobj":
            want = "obj"
        return ("call", "map", (self.gen(src, sc, d + 1), self.body(want, sc, ek, d)))

    def mk_keymapper(self, sc, d):
        r = self.rng
        inner = sc.push("str")
        # injective on keys so no collisions are produced
        return r.choice([("call", "concat", (("path", 0, ()), ("lit", "_x"))), ("call", "concat", (("lit", "p-"), ("path", 0, ()))),
                         ("path", 0, ()), self.gen("str", inner, d + 2)])

    def mk_group_by(self, sc, d):
        src = self.rng.choice(("arr:obj", "arr:str", "arr:num"))
        ek = ELEM[src]
        return ("call", "group_by", (self.gen(src, sc, d + 1), self.body("str", sc, ek, d)))

    def mk_fold(self, kind, sc, d):
        r = self.rng
        src = "arr:num"
        inner = sc.push("fold")
        bodies = [
            ("call", "+", (("call", "default", (("path", 0, (("k", "so_far"),)), ("lit", 0))), ("path", 0, (("k", "value"),)))),
            ("call", "push", (("call", "default", (("path", 0, (("k", "so_far"),)), ("lit", []))), ("path", 0, (("k", "index"),)))),
            ("path", 0, (("k", "value"),)),
            self.gen(kind, inner, d + 2),
        ]
        args = [self.gen(src, sc, d + 1)]
        if r.random() < 0.6:
            args.append(self.gen(kind if r.random() < 0.5 else "num", sc, d + 1))
        args.append(r.choice(bodies))
        return ("call", "fold", tuple(args))

    def pipe(self, kind, sc, d):
        r = self.rng
        mid = r.choice(("num", "str", "arr:num", "obj", "arr:obj"))
        first = self.gen(mid, sc, d + 1)
        if r.random() < 0.3:
            mid2 = r.choice(("num", "str", "arr:num"))
            second = self.gen(mid2, sc.push(mid), d + 1)
            third = self.gen(kind, sc.push(mid).push(mid2), d + 1)
            return ("call", "|", (first, second, third))
        return ("call", "|", (first, self.gen(kind, sc.push(mid), d + 1)))

    def mk_set(self, kind, sc, d):
        r = self.rng
        name = r.choice(VARNAMES)
        vk = r.choice(("num", "str", "arr:num", "obj", "bool"))
        val = self.gen(vk, sc, d + 1)
        body = self.gen(kind, sc.with_var(name, vk), d + 1)
        return ("call", "set", (("lit", name), val, body))

    def mk_define(self, kind, sc, d):
        r = self.rng
        name = r.choice(MACRONAMES)
        mk = r.choice(("num", "str", "arr:num", "bool"))
        m = self.gen(mk, sc.macro_body(), d + 1)
        body = self.gen(kind, sc.with_macro(name, mk), d + 1)
        return ("call", "define", (("lit", name), m, body))

    def lit_or_field(self, litkind, field, sc):
        """A literal of the given kind, or the record's own value for it with the literal as fallback.  The second form yields
        a string whatever the input is and still depends on the input - a function must not mistake it for a constant."""
        lit = self.lit(litkind)
        r = self.rng
        if sc.dot != "rec" and not (sc.parents and sc.parents[0] == "rec"):
            return lit
        path = ("path", 0 if sc.dot == "rec" else 1, (("k", field),))
        x = r.random()
        if x < 0.6:
            return lit
        if x < 0.85:
            return ("call", "default", (path, lit))
        return ("call", "?", (("call", "string?", (path,)), path, lit))

    def mk_varfn(self, kind, sc, d):
        r = self.rng
        names = [n for n, k in sc.vars.items() if k == kind or kind == "any"]
        if names and self.computed_names and r.random() < 0.2 and sc.dot == "rec":
            # the name of the variable is computed: the record says which one (with a fallback)
            return ("call", ":", (("call", "default", (("path", 0, (("k", "which"),)), ("lit", r.choice(names)))),))
        if names and r.random() < 0.7:
            return ("call", ":", (("lit", r.choice(names)),))
        mnames = [n for n, k in sc.macros.items() if k == kind or kind == "any"]
        if mnames:
            return ("call", "@", (("lit", r.choice(mnames)),))
        if sc.in_macro:
            return ("call", ":", (("lit", r.choice(VARNAMES)),))
        return ("call", r.choice((":", "@")), (("lit", r.choice(VARNAMES + MACRONAMES)),))

    def mk_parse_selection(self, kind, sc, d):
        sub = Gen(self.rng, self.ill, 1, self.funcs, self.nonascii, self.big_n, allow_parse_selection=False)
        inner = sub.gen(kind, sc, 0)
        if sc.dot == "rec" and self.rng.random() < 0.3:
            # the text to parse comes from the record (another one for every record), with the literal as fallback
            return ("call", "parse_selection", (("call", "default", (("path", 0, (("k", "sel"),)), ("lit", show(inner)))),))
        return ("call", "parse_selection", (("lit", show(inner)),))


# --------------------------------------------------------------------------
# printer

SAFE_KEY_BAD = set(" \t\r\n.,=()\"[]{}#") | {chr(c) for c in range(32)} | {"\x7f"}


def show_lit(v, rng=None):
    if rng is None:
        return jm.dumps(v, sep=(", ", ": "))
    t, _ = jm.spell(v, rng, None, 0.1, plain_numbers=True)
    return t


def show(ast, rng=None, variants=False):
    """Text of an expression.  With rng and variants=True: random aliases, separators, (.f x) sugar."""
    k = ast[0]
    if k == "lit":
        return show_lit(ast[1], rng if variants else None)
    if k == "path":
        s = "^" * ast[1]
        if not ast[2]:
            return s + "."
        for st in ast[2]:
            s += ("." + st[1]) if st[0] == "k" else ("#%d" % st[1])
        return s
    if k == "var":
        return ":" + ast[1]
    if k == "macro":
        return "@" + ast[1]
    if k == "sel":
        return "/" + ast[1] + "/"
    if k == "raw":
        return ast[1]
    name = ast[1]
    args = list(ast[2])
    if variants and rng is not None:
        al = ALIASES.get(name) or []
        if al and rng.random() < 0.5:
            name = rng.choice(al)
        sugar = False
        if args and args[0] == ("path", 0, ()) and rng.random() < 0.5:
            sugar = True
            args = args[1:]
        style = rng.choice(("space", "space", "comma", "comma-space", "wide"))
        sep = {"space": " ", "comma": ",", "comma-space": ", ", "wide": "  ,  "}[style]
        parts = [show(a, rng, True) for a in args]
        out = "(" + ("." if sugar else "") + name
        for p in parts:
            # a path/var token must be followed by a separator that terminates it; a comma does
            out += sep + p
        out += (" " if rng.random() < 0.2 else "") + ")"
        return out
    return "(" + " ".join([name] + [show(a) for a in args]) + ")"


def walk(ast):
    yield ast
    if ast[0] == "call":
        for a in ast[2]:
            for x in walk(a):
                yield x


def functions_in(ast):
    return {n[1] for n in walk(ast) if n[0] == "call"}
