"""Small records over tiny key/value universes: every stateful stage sees every short history
(repeats, ties, absent keys, mixed types)."""
from . import jsonmodel as jm

KEY_UNIVERSE = ["a", "b", "", "é", 1, 2, 2.5, None, True, [1], {"x": 1}]
# objects with the same members in another order (equal for `=`, apart in the sort order), and one between them: only where
# member-order permutations are inside the property's domain (sorting: C07/C08; not --unique, see C10's quantifier)
PERMUTED_KEYS = [{"x": 1, "y": 2}, {"y": 2, "x": 1}, {"x": 1, "y": 3}, {"y": 1, "x": 1}]
GROUP_UNIVERSE = ["a", "b", "", "é x", "k\"q", 1, None, "__absent__", ["a", "b"], ["c"], [], [1, "a", None], {"a": 1}, True]


def gen_records(rng, n=None, keys=None, with_arrays=True):
    """Objects {s: serial, k: key?, g: group?, v: small value, arr: [...]?}."""
    if n is None:
        n = rng.choice((0, 1, 2, 3, 5, 8, 13, 21, 40))
    keys = keys or KEY_UNIVERSE
    nk = rng.choice((1, 2, 3, 4, len(keys)))
    ks = [rng.choice(keys) for _ in range(nk)]
    out = []
    for i in range(n):
        r = {"s": i}
        if rng.random() < 0.9:
            r["k"] = rng.choice(ks)
        g = rng.choice(GROUP_UNIVERSE)
        if g != "__absent__":
            r["g"] = g
        r["v"] = rng.choice((0, 1, 1, 2, "x", "y", None, False, 1.5))
        if with_arrays and rng.random() < 0.7:
            r["arr"] = [rng.choice((1, 2, 3, "a", None)) for _ in range(rng.choice((0, 1, 2, 3)))]
        out.append(r)
    return out


def to_input(records, rng=None):
    seps = ["\n", " ", "", "\n\n"]
    parts = []
    for r in records:
        parts.append(jm.dumps(r))
    sep = rng.choice(seps) if rng else "\n"
    return sep.join(parts).encode("utf-8")
