"""Independent JSON model: strict RFC 8259 reader (with byte spans), writer,
value generator and conforming re-spellings.  Nothing here uses Python's json
module (it is only used in the self-test as a cross-check).

Value model: None, True/False, str (Unicode scalar values), int, float,
list, dict (insertion ordered, distinct keys).  Numbers read from jawk's
output are JNum tokens (they keep their text).
"""
import re
from fractions import Fraction

I64_MIN = -(2 ** 63)
U64_MAX = 2 ** 64 - 1


class JsonError(Exception):
    def __init__(self, msg, pos):
        Exception.__init__(self, "%s at byte %d" % (msg, pos))
        self.pos = pos


class JNum:
    """A number token as printed."""
    __slots__ = ("text",)

    def __init__(self, text):
        self.text = text

    @property
    def is_int(self):
        t = self.text
        return "." not in t and "e" not in t and "E" not in t

    def frac(self):
        return Fraction(self.text)

    def plain(self):
        return int(self.text) if self.is_int else float(self.text)

    def __repr__(self):
        return "JNum(%s)" % self.text

    def __eq__(self, o):
        return isinstance(o, JNum) and o.text == self.text

    def __hash__(self):
        return hash(self.text)


_WS = b" \t\n\r"
_NUM = re.compile(rb"-?(?:0|[1-9][0-9]*)(?:\.[0-9]+)?(?:[eE][+-]?[0-9]+)?")
_STR_CHUNK = re.compile(rb'[^"\\\x00-\x1f]+')
_HEX4 = re.compile(rb"[0-9a-fA-F]{4}")
_ESC = {ord('"'): '"', ord("\\"): "\\", ord("/"): "/", ord("b"): "\b", ord("f"): "\f",
        ord("n"): "\n", ord("r"): "\r", ord("t"): "\t"}


class Reader:
    """Strict reader over bytes."""

    def __init__(self, data, max_depth=512, lone_surrogates=False, merge_duplicates=False):
        self.d = data
        self.n = len(data)
        self.max_depth = max_depth
        self.lone_surrogates = lone_surrogates
        self.merge_duplicates = merge_duplicates      # only for matching a known defect model: repeated names keep the last value

    def skip_ws(self, i):
        d, n = self.d, self.n
        while i < n and d[i] in _WS:
            i += 1
        return i

    def value(self, i, depth=0):
        d = self.d
        if i >= self.n:
            raise JsonError("unexpected end", i)
        c = d[i]
        if c == 0x22:
            return self.string(i)
        if c == 0x7B:
            return self.object(i, depth)
        if c == 0x5B:
            return self.array(i, depth)
        if c == 0x74:
            if d[i:i + 4] == b"true":
                return True, i + 4
            raise JsonError("bad literal", i)
        if c == 0x66:
            if d[i:i + 5] == b"false":
                return False, i + 5
            raise JsonError("bad literal", i)
        if c == 0x6E:
            if d[i:i + 4] == b"null":
                return None, i + 4
            raise JsonError("bad literal", i)
        if c == 0x2D or 0x30 <= c <= 0x39:
            m = _NUM.match(d, i)
            if not m:
                raise JsonError("bad number", i)
            return JNum(m.group().decode("ascii")), m.end()
        raise JsonError("unexpected byte 0x%02x" % c, i)

    def string(self, i):
        d, n = self.d, self.n
        i += 1
        parts = []
        while True:
            if i >= n:
                raise JsonError("unterminated string", i)
            c = d[i]
            if c == 0x22:
                i += 1
                break
            if c == 0x5C:
                if i + 1 >= n:
                    raise JsonError("unterminated escape", i)
                e = d[i + 1]
                if e == 0x75:
                    m = _HEX4.match(d, i + 2)
                    if not m:
                        raise JsonError("bad \\u escape", i)
                    cp = int(m.group(), 16)
                    i += 6
                    if 0xD800 <= cp <= 0xDBFF:
                        # needs a low surrogate escape right after
                        if d[i:i + 2] == b"\\u":
                            m2 = _HEX4.match(d, i + 2)
                            if m2:
                                lo = int(m2.group(), 16)
                                if 0xDC00 <= lo <= 0xDFFF:
                                    cp = 0x10000 + ((cp - 0xD800) << 10) + (lo - 0xDC00)
                                    i += 6
                                    parts.append(chr(cp))
                                    continue
                        if not self.lone_surrogates:
                            raise JsonError("lone high surrogate escape", i)
                    if 0xDC00 <= cp <= 0xDFFF and not self.lone_surrogates:
                        raise JsonError("lone low surrogate escape", i)
                    parts.append(chr(cp))
                    continue
                if e in _ESC:
                    parts.append(_ESC[e])
                    i += 2
                    continue
                raise JsonError("bad escape", i)
            if c < 0x20:
                raise JsonError("raw control character 0x%02x in string" % c, i)
            m = _STR_CHUNK.match(d, i)
            try:
                parts.append(m.group().decode("utf-8"))
            except UnicodeDecodeError:
                raise JsonError("invalid UTF-8 in string", i)
            i = m.end()
        return "".join(parts), i

    def array(self, i, depth):
        if depth >= self.max_depth:
            raise JsonError("too deep", i)
        d = self.d
        out = []
        i = self.skip_ws(i + 1)
        if i < self.n and d[i] == 0x5D:
            return out, i + 1
        while True:
            i = self.skip_ws(i)
            v, i = self.value(i, depth + 1)
            out.append(v)
            i = self.skip_ws(i)
            if i >= self.n:
                raise JsonError("unterminated array", i)
            if d[i] == 0x2C:
                i += 1
                continue
            if d[i] == 0x5D:
                return out, i + 1
            raise JsonError("expected , or ]", i)

    def object(self, i, depth):
        if depth >= self.max_depth:
            raise JsonError("too deep", i)
        d = self.d
        out = {}
        i = self.skip_ws(i + 1)
        if i < self.n and d[i] == 0x7D:
            return out, i + 1
        while True:
            i = self.skip_ws(i)
            if i >= self.n or d[i] != 0x22:
                raise JsonError("expected member name", i)
            k, i = self.string(i)
            i = self.skip_ws(i)
            if i >= self.n or d[i] != 0x3A:
                raise JsonError("expected :", i)
            i = self.skip_ws(i + 1)
            v, i = self.value(i, depth + 1)
            if k in out and not self.merge_duplicates:
                raise DuplicateKey("duplicate member name %r" % k, i)
            out[k] = v
            i = self.skip_ws(i)
            if i >= self.n:
                raise JsonError("unterminated object", i)
            if d[i] == 0x2C:
                i += 1
                continue
            if d[i] == 0x7D:
                return out, i + 1
            raise JsonError("expected , or }", i)


class DuplicateKey(JsonError):
    pass


def loads(data):
    """Exactly one JSON text (surrounding whitespace allowed)."""
    if isinstance(data, str):
        data = data.encode("utf-8")
    r = Reader(data)
    i = r.skip_ws(0)
    v, i = r.value(i)
    i = r.skip_ws(i)
    if i != len(data):
        raise JsonError("trailing bytes", i)
    return v


def read_stream(data):
    """A concatenation of JSON texts -> list of (value, start, end)."""
    r = Reader(data)
    out = []
    i = r.skip_ws(0)
    while i < len(data):
        v, j = r.value(i)
        out.append((v, i, j))
        i = r.skip_ws(j)
    return out


def read_rows(data, sep=b"\n", lone_surrogates=False, merge_duplicates=False):
    """jawk JSON-mode stdout: rows each followed by `sep`.  Returns list of values.
    Every row must be exactly one JSON text; raises JsonError otherwise."""
    out = []
    r = Reader(data, lone_surrogates=lone_surrogates, merge_duplicates=merge_duplicates)
    i = 0
    n = len(data)
    while i < n:
        v, j = r.value(i)
        if data[j:j + len(sep)] != sep:
            raise JsonError("row not followed by the row separator", j)
        out.append(v)
        i = j + len(sep)
    return out


def plain(v):
    """JNum tokens -> int/float, recursively."""
    if isinstance(v, JNum):
        return v.plain()
    if isinstance(v, list):
        return [plain(x) for x in v]
    if isinstance(v, dict):
        return {k: plain(x) for k, x in v.items()}
    return v


# --------------------------------------------------------------------------
# comparison of an expected value with what was printed

def num_match(exp, got):
    """exp: int (must come out exactly) or float (nearest double).  got: JNum/int/float."""
    if isinstance(got, JNum):
        if isinstance(exp, bool) or exp is None:
            return False
        if isinstance(exp, int):
            return got.frac() == exp
        try:
            if got.is_int and I64_MIN <= int(got.text) <= U64_MAX:
                # an integer token of the 64-bit ranges denotes that integer exactly (2^64-1 is not the double 2^64)
                return exp == exp and abs(exp) != float("inf") and Fraction(exp) == int(got.text)
            return float(got.text) == exp
        except (ValueError, OverflowError):
            return False
    if isinstance(got, bool) or isinstance(exp, bool):
        return False
    if isinstance(exp, int) and isinstance(got, int):
        return exp == got
    if isinstance(exp, int):
        return Fraction(got) == exp if got == got and abs(got) != float("inf") else False
    return float(got) == exp


def same(exp, got, order=True):
    """Deep comparison: structure, member order (if order), strings by code point, numbers by num_match."""
    if exp is None or isinstance(exp, bool):
        return got is exp
    if isinstance(exp, str):
        return isinstance(got, str) and got == exp
    if isinstance(exp, (int, float)):
        if isinstance(got, bool) or not isinstance(got, (JNum, int, float)):
            return False
        return num_match(exp, got)
    if isinstance(exp, list):
        return isinstance(got, list) and len(exp) == len(got) and all(same(a, b, order) for a, b in zip(exp, got))
    if isinstance(exp, dict):
        if not isinstance(got, dict) or len(exp) != len(got):
            return False
        if order:
            return all(k1 == k2 and same(v1, v2, order)
                       for (k1, v1), (k2, v2) in zip(exp.items(), got.items()))
        return all(k in got and same(v, got[k], order) for k, v in exp.items())
    raise TypeError(type(exp))


def first_diff(exp, got, path="$"):
    """Human-readable location of the first difference (for reports)."""
    if isinstance(exp, list) and isinstance(got, list):
        if len(exp) != len(got):
            return "%s: length %d vs %d" % (path, len(exp), len(got))
        for i, (a, b) in enumerate(zip(exp, got)):
            if not same(a, b):
                return first_diff(a, b, "%s[%d]" % (path, i))
    if isinstance(exp, dict) and isinstance(got, dict):
        if list(exp.keys()) != list(got.keys()):
            return "%s: keys %r vs %r" % (path, list(exp.keys())[:8], list(got.keys())[:8])
        for k in exp:
            if not same(exp[k], got[k]):
                return first_diff(exp[k], got[k], "%s.%s" % (path, k))
    return "%s: expected %r got %r" % (path, exp, got)


# --------------------------------------------------------------------------
# writer (for building inputs)

_SHORT = {0x22: '\\"', 0x5C: "\\\\", 0x08: "\\b", 0x0C: "\\f", 0x0A: "\\n", 0x0D: "\\r", 0x09: "\\t"}


def dump_string(s, ascii_only=False):
    out = ['"']
    for ch in s:
        c = ord(ch)
        if c in _SHORT:
            out.append(_SHORT[c])
        elif c < 0x20:
            out.append("\\u%04x" % c)
        elif c < 0x7F:
            out.append(ch)
        elif ascii_only:
            if c >= 0x10000:
                c -= 0x10000
                out.append("\\u%04x\\u%04x" % (0xD800 + (c >> 10), 0xDC00 + (c & 0x3FF)))
            else:
                out.append("\\u%04x" % c)
        else:
            out.append(ch)
    out.append('"')
    return "".join(out)


class NegZero(int):
    """The integer zero written with a sign (the token `-0`): the value 0, another spelling."""

    def __new__(cls, *_):
        return int.__new__(cls, 0)


def dump_number(x):
    if isinstance(x, NegZero):
        return "-0"
    if isinstance(x, int):
        return str(x)
    r = repr(x)
    if r in ("inf", "-inf", "nan"):
        raise ValueError("non-finite")
    if "e" in r and "." not in r.split("e")[0]:
        return r  # e.g. 1e+16 is valid JSON
    return r


def dumps(v, sep=(",", ":")):
    """Compact conforming JSON text (str)."""
    if v is None:
        return "null"
    if v is True:
        return "true"
    if v is False:
        return "false"
    if isinstance(v, str):
        return dump_string(v)
    if isinstance(v, (int, float)):
        return dump_number(v)
    if isinstance(v, JNum):
        return v.text
    if isinstance(v, list):
        return "[" + sep[0].join(dumps(x, sep) for x in v) + "]"
    if isinstance(v, dict):
        return "{" + sep[0].join(dump_string(k) + sep[1] + dumps(x, sep) for k, x in v.items()) + "}"
    raise TypeError(type(v))


# --------------------------------------------------------------------------
# generators

STRING_CLASSES = ("ascii", "quote", "backslash", "slash", "c0", "del", "latin1", "bmp", "ls_ps",
                  "specials", "astral", "empty")


def gen_char(rng, cls):
    if cls == "ascii":
        return chr(rng.choice((rng.randint(0x20, 0x7E), rng.randint(0x61, 0x7A))))
    if cls == "quote":
        return '"'
    if cls == "backslash":
        return "\\"
    if cls == "slash":
        return "/"
    if cls == "c0":
        return chr(rng.randint(0, 0x1F))
    if cls == "del":
        return "\x7f"
    if cls == "latin1":
        return chr(rng.randint(0x80, 0xFF))
    if cls == "bmp":
        while True:
            c = rng.randint(0x100, 0xFFFF)
            if not 0xD800 <= c <= 0xDFFF:
                return chr(c)
    if cls == "ls_ps":
        return rng.choice("\u2028\u2029")
    if cls == "specials":
        # (the code points around the surrogate block, and those whose 16-bit pattern looks like a surrogate when a mask is a
        # bit too wide or too narrow)
        return rng.choice("\ufffd\ufffe\uffff\ud7ff\ue000\uf800\ufbff\ufb03\uf8ff\ufc00\uf7ff\ud000\ucfff\ue7ff\uc800")
    if cls == "astral":
        return chr(rng.choice((rng.randint(0x10000, 0x10FFFF), 0x1F603, 0x10000, 0x10FFFF, 0xFFFFF)))
    return ""


ASTRAL_P = 0.004


def gen_string(rng, classes=None, maxlen=12, stats=None):
    n = rng.choice((0, 1, 1, 2, 3, 5, rng.randint(0, maxlen)))
    out = []
    pool = ("ascii",) * 8 + ("quote", "backslash", "slash", "c0", "c0", "del", "latin1", "bmp", "ls_ps", "specials")
    if classes is None and rng.random() < ASTRAL_P:
        pool = pool + ("astral",) * 3
    for _ in range(n):
        cls = rng.choice(classes) if classes else rng.choice(pool)
        if stats is not None:
            stats.add(cls)
        out.append(gen_char(rng, cls))
    return "".join(out)


BOUNDARY_INTS = sorted(set(
    [0, 1, -1, 9, 10, 99, 100, 255, 256, 65535, 65536, -(2 ** 31), 2 ** 31 - 1, 2 ** 31, 2 ** 32 - 1, 2 ** 32,
     2 ** 53 - 1, 2 ** 53, 2 ** 53 + 1, 2 ** 53 + 2, -(2 ** 53), -(2 ** 53) - 1,
     2 ** 63 - 1, 2 ** 63, 2 ** 63 + 1, -(2 ** 63), -(2 ** 63) + 1, 2 ** 64 - 1, 2 ** 64 - 2,
     10 ** 15, 10 ** 16, 10 ** 17, 10 ** 18, 10 ** 19, 9999999999999999999, 18446744073709551615,
     9007199254740993, 1234567890123456789, -1234567890123456789]
    + [2 ** k + d for k in (8, 16, 24, 31, 32, 52, 53, 54, 62, 63) for d in (-1, 0, 1)]
    + [-(2 ** k) + d for k in (8, 31, 32, 53, 62, 63) for d in (0, 1)]))
BOUNDARY_INTS = [x for x in BOUNDARY_INTS if I64_MIN <= x <= U64_MAX]

BOUNDARY_FLOATS = [0.5, -0.5, 0.1, 1.5, 3.14, 5e-324, 2.2250738585072014e-308, 1.7976931348623157e308,
                   -1.7976931348623157e308, 1e-7, 1.0000000000000002, 123456.789, 1e21, 1.5e300, -2.5e-300,
                   4.9406564584124654e-324, 0.30000000000000004, 9007199254740993.5, 1e19 * 3.3,
                   float(2 ** 64), float(2 ** 70), -float(2 ** 63) * 2, 1.8446744073709552e19]


def gen_number(rng):
    r = rng.random()
    if r < 0.03:
        # the doubles next to a whole number (0.9999999999999999, 3.0000000000000004, 4503599627370495.5): not that number
        import math
        k = rng.choice((1, 2, 3, 7, 10, 100, 2 ** 31, 2 ** 32, 2 ** 52, 2 ** 52 - 1, rng.randint(1, 2 ** 52), 10 ** rng.randint(1, 15)))
        f = math.nextafter(float(k), rng.choice((math.inf, -math.inf)))
        return -f if rng.random() < 0.3 else f
    if r < 0.045:
        # integer tokens just outside the 64-bit ranges: doubles, printed with all their digits (no integer fast path for them)
        return rng.choice((-(2 ** 63) - 1025, -(2 ** 63) - 2048, -9300000000000000000, -9999999999999999999, -(10 ** 19), 2 ** 64, 2 ** 64 + 2048, 2 ** 64 + 4096,
                           18446744073709552000, 2 * 10 ** 19, -(2 ** 64), 10 ** 20, -(2 ** 63) - rng.randrange(1025, 10 ** 18)))
    if r < 0.06:
        # few digits and an exponent beyond the powers of ten a double holds exactly (10^22)
        return float("%de%d" % (rng.randint(1, 10 ** rng.choice((1, 2, 5, 15))), rng.choice((22, 23, 24, 25, 30, -22, -23, -24, -25, -30)))) * rng.choice((1, -1))
    if r < 0.35:
        return rng.randint(-20, 20)
    if r < 0.55:
        return rng.choice(BOUNDARY_INTS)
    if r < 0.65:
        return rng.randint(I64_MIN, U64_MAX)
    if r < 0.75:
        return rng.choice(BOUNDARY_FLOATS)
    if r < 0.9:
        m = rng.randint(-10 ** rng.randint(1, 17), 10 ** rng.randint(1, 17))
        e = rng.randint(-30, 30)
        f = float("%de%d" % (m, e))
        if f == int(f) and abs(f) < 2 ** 64:
            return f + 0.5 if abs(f) < 2 ** 50 else f
        return f
    import struct
    while True:
        bits = rng.getrandbits(64)
        f = struct.unpack("<d", struct.pack("<Q", bits))[0]
        if f == f and abs(f) != float("inf"):
            return f


KEYS = ["a", "b", "c", "k", "id", "name", "x y", "", "\u00e9", "k\"q", "0", "na\\me", "\u2028", " ", "A", "key", "arr", "obj"]


def gen_value(rng, depth=0, maxdepth=4, classes=None):
    r = rng.random()
    if depth >= maxdepth:
        r *= 0.7
    if r < 0.08:
        return None
    if r < 0.16:
        return rng.random() < 0.5
    if r < 0.40:
        return gen_number(rng)
    if r < 0.70:
        return gen_string(rng, classes)
    if r < 0.85:
        return [gen_value(rng, depth + 1, maxdepth, classes) for _ in range(rng.choice((0, 1, 2, 3, 5)))]
    d = {}
    for _ in range(rng.choice((0, 1, 2, 3, 5))):
        k = rng.choice(KEYS) if rng.random() < 0.7 else gen_string(rng, classes, 6)
        if k not in d:
            d[k] = gen_value(rng, depth + 1, maxdepth, classes)
    return d


def gen_deep(rng, depth):
    """A value nested `depth` levels (arrays/objects mixed)."""
    v = rng.choice((1, "x", None, [], {}))
    for _ in range(depth - (1 if isinstance(v, (list, dict)) else 0)):
        v = [v] if rng.random() < 0.5 else {rng.choice("abc"): v}
    return v


# --------------------------------------------------------------------------
# conforming re-spellings

def ws(rng, p=0.3):
    if rng.random() > p:
        return ""
    return "".join(rng.choice(" \t\n\r") for _ in range(rng.choice((1, 1, 2, 3))))


def spell_string(s, rng, tags=None):
    out = ['"']
    for ch in s:
        c = ord(ch)
        r = rng.random()
        if c in _SHORT and r < 0.6:
            out.append(_SHORT[c])
            tags is not None and tags.add("short-escape")
        elif c == 0x2F and r < 0.3:
            out.append("\\/")
            tags is not None and tags.add("escaped-slash")
        elif c < 0x20 or c in (0x22, 0x5C):
            out.append(("\\u%04x" if rng.random() < 0.5 else "\\u%04X") % c)
            tags is not None and tags.add("u-escape-mandatory")
        elif c < 0x10000 and r > 0.85 and not (0xD800 <= c <= 0xDFFF):
            out.append(("\\u%04x" if rng.random() < 0.5 else "\\u%04X") % c)
            tags is not None and tags.add("u-escape-optional")
        else:
            out.append(ch)
            if c >= 0x80 and tags is not None:
                tags.add("raw-utf8")
    out.append('"')
    return "".join(out)


def _dec_parts(x):
    """Exact decimal (sign, digits, exp10) of an int or of the shortest repr of a float: value = digits * 10**exp."""
    if isinstance(x, int):
        s = str(abs(x))
        return (x < 0), s, 0
    r = repr(x)
    neg = r.startswith("-")
    if neg:
        r = r[1:]
    mant, _, e = r.partition("e")
    e = int(e) if e else 0
    ip, _, fp = mant.partition(".")
    digits = (ip + fp).lstrip("0") or "0"
    return neg, digits, e - len(fp)


def spell_number(x, rng, tags=None):
    """Returns (text, expected) where expected is an int (exact) or a float (nearest double)."""
    if isinstance(x, int) and rng.random() < 0.6:
        tags is not None and tags.add("int-plain")
        return str(x), (x if I64_MIN <= x <= U64_MAX else float(x))
    neg, digits, exp = _dec_parts(x)
    # move the decimal point / exponent around, value preserved exactly
    style = rng.choice(("plain", "exp", "exp+", "EXP", "shift-up", "shift-down", "frac-zeros", "point"))
    if rng.random() < 0.01 and digits != "0":
        # hundreds of zeros between the decimal point and the digits, undone by the exponent (and the mirror image: hundreds of
        # trailing zeros with a negative exponent): length of the literal is no measure of its value
        k = rng.choice((300, 800, 1100))
        if rng.random() < 0.5:
            e2 = exp + k + len(digits)
            text = ("-" if neg else "") + "0." + "0" * k + digits + rng.choice("eE") + (rng.choice(("", "+")) if e2 >= 0 else "") + str(e2)
        else:
            text = ("-" if neg else "") + digits + "0" * k + rng.choice("eE") + str(exp - k)
        tags is not None and tags.add("num-long-zeros")
        val = Fraction(text)
        return text, float(val)
    sign = "-" if neg else ""
    if isinstance(x, float) and neg and digits == "0":
        sign = "-"
    ech = "e"
    if style == "EXP":
        ech = "E"
    if style in ("plain",) and -30 < exp < 30:
        if exp >= 0:
            text = sign + digits + "0" * exp + (".0" if isinstance(x, float) and rng.random() < 0.5 else "")
        else:
            k = -exp
            if len(digits) > k:
                text = sign + digits[:-k] + "." + digits[-k:]
            else:
                text = sign + "0." + "0" * (k - len(digits)) + digits
    elif style == "shift-up" and digits != "0":
        k = rng.randint(1, 5)
        text = sign + digits + "0" * k + ech + str(exp - k)
    elif style == "shift-down" and len(digits) > 1:
        k = rng.randint(1, len(digits) - 1)
        text = sign + digits[:-k] + "." + digits[-k:] + ech + rng.choice(("", "+") if exp + k >= 0 else ("",)) + str(exp + k)
    elif style == "frac-zeros":
        text = sign + digits + "." + "0" * rng.randint(1, 3) + ech + str(exp)
    elif style == "point":
        k = len(digits)
        text = sign + "0." + digits + ech + str(exp + k)
    elif style == "exp+" and exp >= 0:
        text = sign + digits + ech + "+" + str(exp)
    else:
        text = sign + digits + ech + str(exp)
    if tags is not None:
        tags.add("num-" + style)
    # expected: the nearest double of the denoted number (or the exact int if it happens to be one: accepted too)
    val = Fraction(text)
    is_plain_int = re.fullmatch(r"-?[0-9]+", text) is not None
    if is_plain_int and I64_MIN <= val <= U64_MAX:
        return text, int(val)
    return text, float(text)


def spell(v, rng, tags=None, wsp=0.25, plain_numbers=False):
    """Returns (text, expected value) — a random conforming spelling of v."""
    if plain_numbers and isinstance(v, (int, float)) and not isinstance(v, bool):
        return dump_number(v), v
    if v is None:
        return "null", None
    if v is True:
        return "true", True
    if v is False:
        return "false", False
    if isinstance(v, str):
        return spell_string(v, rng, tags), v
    if isinstance(v, (int, float)):
        return spell_number(v, rng, tags)
    if isinstance(v, list):
        parts = []
        exp = []
        for x in v:
            t, e = spell(x, rng, tags, wsp, plain_numbers)
            parts.append(ws(rng, wsp) + t + ws(rng, wsp))
            exp.append(e)
        if not parts:
            return "[" + ws(rng, wsp) + "]", []
        return "[" + ",".join(parts) + "]", exp
    if isinstance(v, dict):
        parts = []
        exp = {}
        for k, x in v.items():
            t, e = spell(x, rng, tags, wsp, plain_numbers)
            parts.append(ws(rng, wsp) + spell_string(k, rng, tags) + ws(rng, wsp) + ":" + ws(rng, wsp) + t + ws(rng, wsp))
            exp[k] = e
        if not parts:
            return "{" + ws(rng, wsp) + "}", {}
        return "{" + ",".join(parts) + "}", exp
    raise TypeError(type(v))


def can_touch(prev_text, next_text):
    """May two top-level texts be concatenated with nothing in between (maximal munch keeps them apart)?"""
    a = prev_text[-1]
    b = next_text[0]
    if a in "}]\"":
        return True
    if a.isdigit():
        # previous is a number: the next byte must not continue it
        return b not in "0123456789.eE+"
    # previous is a literal true/false/null
    return True


def classify(v):
    if v is None:
        return "null"
    if isinstance(v, bool):
        return "bool"
    if isinstance(v, str):
        return "string"
    if isinstance(v, int):
        return "int" if abs(v) < 2 ** 53 else "bigint"
    if isinstance(v, float):
        return "float"
    if isinstance(v, list):
        return "array"
    return "object"


def has_astral(v):
    if isinstance(v, str):
        return any(ord(c) > 0xFFFF for c in v)
    if isinstance(v, list):
        return any(has_astral(x) for x in v)
    if isinstance(v, dict):
        return any(has_astral(k) or has_astral(x) for k, x in v.items())
    return False


def astral_defect(v):
    """Known finding `astral-escape`: what a strict reader (tolerating lone surrogates) decodes when every
    character above U+FFFF was printed as backslash-u + '%04x' % code point."""
    if isinstance(v, str):
        if not any(ord(c) > 0xFFFF for c in v):
            return v
        out = []
        for c in v:
            if ord(c) > 0xFFFF:
                h = "%04x" % ord(c)
                out.append(chr(int(h[:4], 16)) + h[4:])
            else:
                out.append(c)
        return "".join(out)
    if isinstance(v, list):
        return [astral_defect(x) for x in v]
    if isinstance(v, dict):
        return {astral_defect(k): astral_defect(x) for k, x in v.items()}
    return v


def twin(v):
    """A value that jawk's equality cannot tell from v although it is not identical to it: object members in the opposite
    order (at every depth); 2^64-1 (an exact integer) becomes 2^64 (read as a double, equal to it through the f64 comparison).
    Used to plant "equal but not the same text" neighbours in front of stages that may cache by equality."""
    if isinstance(v, dict):
        return {k: twin(x) for k, x in reversed(list(v.items()))}
    if isinstance(v, list):
        return [twin(x) for x in v]
    if isinstance(v, int) and not isinstance(v, bool) and v == 2 ** 64 - 1:
        return 2 ** 64
    return v
