"""Core of the runtime-monitoring framework: driver build, driver protocol,
worker pool, verdicts, evidence, replay, known findings.

Python 3 standard library only.
"""
import hashlib
import json
import multiprocessing
import os
import random
import shutil
import subprocess
import sys
import time
import traceback

ROOT = os.path.dirname(os.path.dirname(os.path.abspath(__file__)))
REPO = os.environ.get("VERIF_REPO", "/repo")
TARGET = os.environ.get("VERIF_TARGET") or os.path.join(ROOT, "target")
OUT = os.environ.get("VERIF_OUT") or ROOT   # evidence/ and replays/ live here (scratch dir when evaluating seeded changes)
DRIVER_MEM_MB = int(os.environ.get("VERIF_DRIVER_MEM_MB", "6144"))
NWORKERS = int(os.environ.get("VERIF_WORKERS", "16"))
FIXED_ENV = {"JAWK_VF_A": "alpha", "JAWK_VF_E": "", "JAWK_VF_U": "\u00fc\u00f1\u00ed", "JAWK_VF_L1": "caf\udce9"}


# --------------------------------------------------------------------------
# build

class BuildFailed(Exception):
    pass


def _cargo(args, cwd, env_extra=None, timeout=1800):
    env = dict(os.environ)
    env["CARGO_NET_OFFLINE"] = "true"
    env.setdefault("CARGO_TERM_COLOR", "never")
    if env_extra:
        env.update(env_extra)
    return subprocess.run(["cargo"] + args, cwd=cwd, env=env, stdout=subprocess.PIPE,
                          stderr=subprocess.STDOUT, timeout=timeout)


def build_driver(profile="release", quiet=True):
    """Build jdrive against /repo's current working tree.  Returns (path, hooks_on)."""
    drv = os.path.join(ROOT, "driver")
    if os.path.abspath(REPO) != "/repo":
        # development aid (seeded-change evaluation in a scratch worktree): same driver sources,
        # dependency path rewritten.  The registered checks always run with REPO = /repo.
        alt = os.path.join(TARGET, "driver-alt")
        shutil.rmtree(alt, ignore_errors=True)
        shutil.copytree(drv, alt, ignore=shutil.ignore_patterns("Cargo.lock", "target"))
        mf = os.path.join(alt, "Cargo.toml")
        txt = open(mf).read().replace('path = "/repo"', 'path = "%s"' % os.path.abspath(REPO))
        open(mf, "w").write(txt)
        drv = alt
    lock_src = os.path.join(REPO, "Cargo.lock")
    if os.path.exists(lock_src):
        shutil.copyfile(lock_src, os.path.join(drv, "Cargo.lock"))
    prof_args = ["--release"] if profile == "release" else []
    sub = "release" if profile == "release" else "debug"
    last = b""
    for hooks in (True, False):
        tdir = TARGET if hooks else os.path.join(TARGET, "nohooks")
        args = ["build", "--offline", "--target-dir", tdir] + prof_args
        if hooks:
            args += ["--features", "hooks"]
        r = _cargo(args, drv)
        last = r.stdout
        if r.returncode == 0:
            return os.path.join(tdir, sub, "jdrive"), hooks
    sys.stdout.write(last.decode("utf-8", "replace")[-4000:])
    raise BuildFailed("driver does not build against %s" % REPO)


def build_binary():
    """Build the real jawk executable from /repo's working tree (C20)."""
    tdir = os.path.join(TARGET, "bin")
    r = _cargo(["build", "--offline", "--release", "--manifest-path", os.path.join(REPO, "Cargo.toml"),
                "--target-dir", tdir], REPO)
    if r.returncode != 0:
        sys.stdout.write(r.stdout.decode("utf-8", "replace")[-4000:])
        raise BuildFailed("jawk binary does not build")
    return os.path.join(tdir, "release", "jawk")


# --------------------------------------------------------------------------
# cases and observations

def _hx(b):
    if isinstance(b, str):
        b = b.encode("utf-8", "surrogateescape")
    return b.hex() if b else "-"


OPTION_SPELLINGS = {
    "--select": ["--select", "--choose", "-c"], "--choose": ["--select", "--choose", "-c"],
    "--filter": ["--filter", "--where", "-f"], "--where": ["--filter", "--where", "-f"],
    "--split-by": ["--split-by", "--break-by", "-b"], "--break-by": ["--split-by", "--break-by", "-b"],
    "--group-by": ["--group-by", "-g"],
    "--merge": ["--merge", "--combine", "--group-by", "-g"],
    "--sort-by": ["--sort-by", "--order-by", "-s"], "--order-by": ["--sort-by", "--order-by", "-s"],
    "--skip": ["--skip", "-k"], "--take": ["--take", "--limit", "-t"], "--limit": ["--take", "--limit", "-t"],
    "--unique": ["--unique", "-u"], "--set": ["--set", "-e"],
}
RESPELL = os.environ.get("VERIF_RESPELL", "1") != "0"


def respell(args):
    """The same command line with every option name replaced by one of its documented spellings (--select = --choose = -c,
    --merge = --combine = --group-by without a value, ...).  Deterministic in the argument list, so a replay sees the same
    spelling.  The option *form* (--name=value / --name value) is kept; a short name is only used in the two-argument form."""
    if not RESPELL:
        return args
    import zlib
    flat = b"\x00".join(a if isinstance(a, bytes) else a.encode("utf-8", "surrogateescape") for a in args)
    r = random.Random(zlib.crc32(flat))
    if r.random() < 0.5:
        return args
    out = []
    n = len(args)
    for i, a in enumerate(args):
        if isinstance(a, bytes) or not a.startswith("--"):
            out.append(a)
            continue
        name, eq, val = a.partition("=")
        alts = OPTION_SPELLINGS.get(name)
        if not alts:
            out.append(a)
            continue
        nxt = args[i + 1] if i + 1 < n else None
        if name == "--merge":
            # the valueless --group-by only where no value can be mistaken for its selection
            ok_valueless = (nxt is None or (isinstance(nxt, str) and nxt.startswith("--")))
            alts = alts if (not eq and ok_valueless) else ["--merge", "--combine"]
        if eq:
            alts = [x for x in alts if x.startswith("--")]
        elif name in ("--unique", "--merge"):
            pass
        elif nxt is None or isinstance(nxt, bytes) or nxt.startswith("-"):
            alts = [x for x in alts if x.startswith("--")]
        out.append(r.choice(alts) + eq + val)
    return out


class Case:
    __slots__ = ("args", "stdin", "endless", "rsched", "rintr", "rfail", "wfail", "wshort", "wintr",
                 "efail", "flushfail", "files", "fifos", "efifos", "watchdog_ms", "use_dir", "wonce", "ronce", "links", "lockfiles", "fifohold")

    def __init__(self, args=(), stdin=b"", **kw):
        self.args = list(args)
        self.stdin = stdin
        self.endless = None      # (prefix, pre, post, cap)
        self.rsched = None
        self.rintr = None
        self.rfail = None
        self.wfail = None
        self.wshort = None
        self.wintr = None
        self.efail = None
        self.flushfail = False
        self.files = []          # (name, content)
        self.fifos = []          # name
        self.efifos = []         # (name, prefix, pre, post, cap)
        self.watchdog_ms = 0
        self.use_dir = False
        self.wonce = False       # with wfail: the write error is transient (one failing call)
        self.ronce = False       # with rfail: the read error is transient
        self.links = []          # (name, target): symbolic links in the scratch directory
        self.lockfiles = []      # names of files the driver keeps exclusively flock'ed during the run
        self.fifohold = False    # the writers of `fifos` stay attached and silent until the run is over
        for k, v in kw.items():
            setattr(self, k, v)

    def encode(self, cid, scratch):
        L = ["case %s" % cid]
        for a in respell(self.args):
            if isinstance(a, str):
                a = a.replace("@D@", scratch)
            else:
                a = a.replace(b"@D@", scratch.encode())
            L.append("arg " + _hx(a))
        if self.endless is not None:
            p, a, b, cap = self.endless
            L.append("endless %s %s %s %d" % (_hx(p), _hx(a), _hx(b), cap))
        else:
            L.append("stdin " + _hx(self.stdin))
        if self.rsched:
            L.append("rsched " + ",".join(map(str, self.rsched)))
        if self.rintr:
            L.append("rintr " + ",".join(map(str, self.rintr)))
        if self.rfail is not None:
            L.append("rfail %d" % self.rfail)
            if self.ronce:
                L.append("ronce")
        if self.wfail is not None:
            L.append("wfail %d" % self.wfail)
            if self.wonce:
                L.append("wonce")
        if self.wshort:
            L.append("wshort " + ",".join(map(str, self.wshort)))
        if self.wintr:
            L.append("wintr " + ",".join(map(str, self.wintr)))
        if self.efail is not None:
            L.append("efail %d" % self.efail)
        if self.flushfail:
            L.append("flushfail 1")
        if self.files or self.fifos or self.efifos or self.use_dir or self.links:
            L.append("dir " + _hx(scratch))
        for n, c in self.files:
            L.append("file %s %s" % (_hx(n), _hx(c)))
        for n, t in self.links:
            L.append("link %s %s" % (_hx(n), _hx(t.replace("@D@", scratch) if isinstance(t, str) else t)))
        for n in self.lockfiles:
            L.append("lockfile " + _hx(n))
        for n in self.fifos:
            L.append("fifo " + _hx(n))
        if self.fifohold:
            L.append("fifohold")
        for n, p, a, b, cap in self.efifos:
            L.append("efifo %s %s %s %s %d" % (_hx(n), _hx(p), _hx(a), _hx(b), cap))
        if self.watchdog_ms:
            L.append("watchdog %d" % self.watchdog_ms)
        L.append("run")
        return ("\n".join(L) + "\n").encode()

    def to_json(self):
        d = {}
        for k in self.__slots__:
            v = getattr(self, k)
            if v in (None, False, 0, [], b"") and k not in ("args", "stdin"):
                continue
            d[k] = v
        return enc(d)

    @staticmethod
    def from_json(d):
        d = dec(d)
        c = Case()
        for k, v in d.items():
            if k in ("files", "efifos", "links"):
                v = [tuple(x) for x in v]
            if k == "endless" and v is not None:
                v = tuple(v)
            setattr(c, k, v)
        return c

    def shell(self):
        """A human-readable approximation of the command line."""
        def q(a):
            if isinstance(a, bytes):
                a = a.decode("utf-8", "replace")
            return "'" + a.replace("'", "'\\''") + "'"
        return "jawk " + " ".join(q(a) for a in respell(self.args))


def enc(o):
    """JSON-serialisable form of a structure containing bytes / tuples / sets."""
    if isinstance(o, bytes):
        return {"$b": o.hex()}
    if isinstance(o, dict):
        return {str(k): enc(v) for k, v in o.items()}
    if isinstance(o, (list, tuple)):
        return [enc(x) for x in o]
    if isinstance(o, (set, frozenset)):
        return sorted(enc(x) for x in o)
    if isinstance(o, float) and (o != o or o in (float("inf"), float("-inf"))):
        return {"$f": repr(o)}
    if isinstance(o, str):
        try:
            o.encode("utf-8")
        except UnicodeEncodeError:
            return {"$s": [ord(c) for c in o]}
    return o


def dec(o):
    if isinstance(o, dict):
        if len(o) == 1:
            if "$b" in o:
                return bytes.fromhex(o["$b"])
            if "$f" in o:
                return float(o["$f"])
            if "$s" in o:
                return "".join(chr(c) for c in o["$s"])
        return {k: dec(v) for k, v in o.items()}
    if isinstance(o, list):
        return [dec(x) for x in o]
    return o


class Obs:
    __slots__ = ("result", "errtext", "panicinfo", "stdout", "stderr", "o_calls", "o_errored",
                 "o_after_error", "o_flushes", "e_calls", "e_errored", "e_after_error", "pulled",
                 "read_calls", "factory_calls", "eof", "cap_hit", "r_errored", "reads_after_error",
                 "reads_after_eof", "hooks", "micros", "fifo", "efifo", "rchar")

    def __init__(self):
        self.result = "abort"
        self.errtext = ""
        self.panicinfo = ""
        self.stdout = b""
        self.stderr = b""
        self.o_calls = self.o_errored = self.o_after_error = self.o_flushes = 0
        self.e_calls = self.e_errored = self.e_after_error = 0
        self.pulled = self.read_calls = self.factory_calls = 0
        self.eof = self.cap_hit = self.r_errored = 0
        self.reads_after_error = self.reads_after_eof = 0
        self.hooks = {}
        self.micros = 0
        self.fifo = []
        self.efifo = []
        self.rchar = 0

    def brief(self):
        d = {"result": self.result}
        if self.errtext:
            d["errtext"] = self.errtext[:300]
        if self.panicinfo:
            d["panic"] = self.panicinfo[:300]
        d["stdout"] = self.stdout[:600].decode("utf-8", "replace")
        if self.stderr:
            d["stderr"] = self.stderr[:300].decode("utf-8", "replace")
        d["pulled"] = self.pulled
        return d


def _unhx(s):
    return b"" if s == "-" else bytes.fromhex(s)


def parse_obs(lines):
    o = Obs()
    for ln in lines:
        k, _, v = ln.partition(" ")
        if k == "result":
            o.result = v
        elif k == "errtext":
            o.errtext = _unhx(v).decode("utf-8", "replace")
        elif k == "panicinfo":
            o.panicinfo = _unhx(v).decode("utf-8", "replace")
        elif k == "stdout":
            o.stdout = _unhx(v)
        elif k == "stderr":
            o.stderr = _unhx(v)
        elif k == "ow":
            a = v.split()
            o.o_calls, o.o_errored, o.o_after_error, o.o_flushes = map(int, a)
        elif k == "ew":
            a = v.split()
            o.e_calls, o.e_errored, o.e_after_error = map(int, a[:3])
        elif k == "rd":
            a = list(map(int, v.split()))
            (o.pulled, o.read_calls, o.factory_calls, o.eof, o.cap_hit, o.r_errored,
             o.reads_after_error, o.reads_after_eof) = a
        elif k == "hooks":
            h = {}
            for part in v.split(";"):
                if not part:
                    continue
                f = part.split(":")
                if f[0] == "regex":
                    h["regex"] = {"hits": int(f[1]), "misses": int(f[2]), "capacity": int(f[3])}
                else:
                    h[f[0]] = {"starts": int(f[1]), "processes": int(f[2]), "completes": int(f[3]),
                               "breaks": int(f[4]), "errors": int(f[5]), "after_break": int(f[6]),
                               "before_start": int(f[7])}
            o.hooks = h
        elif k == "micros":
            o.micros = int(v)
        elif k == "rchar":
            o.rchar = int(v)
        elif k == "fifo":
            o.fifo.append(int(v))
        elif k == "efifo":
            o.efifo.append(tuple(map(int, v.split())))
    return o


class Driver:
    """One `jdrive serve` child process."""

    BATCH_BYTES = 48 * 1024

    def __init__(self, path, scratch, wrapper=None, env=None, cmd=None, cwd=None, stderr_path=None):
        self.path = path
        self.scratch = scratch
        self.wrapper = wrapper or []
        self.env = env
        self.cmd = cmd              # full command line replacing wrapper + [path, "serve"] (Miri)
        self.cwd = cwd
        self.stderr_path = stderr_path
        self.proc = None
        self.seq = 0
        self.executions = 0
        self.restarts = 0
        self.isolated_reruns = 0

    def _start(self):
        env = dict(self.env if self.env is not None else os.environ)
        env.update(FIXED_ENV)
        env.pop("JAWK_VF_MISSING", None)
        err = open(self.stderr_path, "ab") if self.stderr_path else subprocess.DEVNULL
        def limit():
            # sanitizer engines need a huge address space: lift the worker's own soft cap again
            import resource
            hard = resource.getrlimit(resource.RLIMIT_AS)[1]
            resource.setrlimit(resource.RLIMIT_AS, (hard, hard))
        if not self.wrapper and not self.cmd and "ASAN_OPTIONS" not in env:
            # an address-space cap for the plain driver: an expression or input that makes jawk allocate without bound must
            # end as an allocation failure (abort, attributed to the case in flight), not take the machine down
            def limit():
                import resource
                cap = DRIVER_MEM_MB * 1024 * 1024
                resource.setrlimit(resource.RLIMIT_AS, (cap, cap))
                # few file descriptors: a run that keeps every input file open meets the limit with hundreds, not thousands, of files
                hard = resource.getrlimit(resource.RLIMIT_NOFILE)[1]
                resource.setrlimit(resource.RLIMIT_NOFILE, (min(256, hard) if hard != resource.RLIM_INFINITY else 256, hard))
        self.proc = subprocess.Popen(self.cmd or (self.wrapper + [self.path, "serve"]), stdin=subprocess.PIPE,
                                     stdout=subprocess.PIPE, stderr=err, env=env, cwd=self.cwd, preexec_fn=limit)
        if self.stderr_path:
            err.close()

    def close(self):
        if self.proc is not None:
            try:
                self.proc.stdin.close()
            except Exception:
                pass
            try:
                self.proc.wait(timeout=5)
            except Exception:
                self.proc.kill()
            self.proc = None

    def _read_obs(self, cid):
        lines = []
        out = self.proc.stdout
        first = out.readline()
        if not first:
            return None
        first = first.decode().rstrip("\n")
        assert first == "obs %s" % cid, (first, cid)
        while True:
            ln = out.readline()
            if not ln:
                return None
            ln = ln.decode().rstrip("\n")
            if ln == "end":
                return parse_obs(lines)
            lines.append(ln)

    def run_many(self, cases):
        """Run cases in order; returns a list of Obs (result 'abort' if the driver died)."""
        res = []
        i = 0
        n = len(cases)
        while i < n:
            if self.proc is None or self.proc.poll() is not None:
                self._start()
            # batch by bytes in flight
            batch = []
            size = 0
            j = i
            while j < n:
                self.seq += 1
                cid = "%d" % self.seq
                b = cases[j].encode(cid, self.scratch)
                if batch and size + len(b) > self.BATCH_BYTES:
                    self.seq -= 1
                    break
                batch.append((cid, b))
                size += len(b)
                j += 1
                if size > self.BATCH_BYTES:
                    break
            died = False
            try:
                if size > 60000:
                    # a single big case: feed it from a thread-free path (driver only
                    # answers after 'run', so writing cannot deadlock on its output)
                    pass
                self.proc.stdin.write(b"".join(b for _, b in batch))
                self.proc.stdin.flush()
            except (BrokenPipeError, OSError):
                died = True
            k = 0
            for cid, _ in batch:
                o = None if died else self._read_obs(cid)
                if o is None:
                    # driver died while running this case
                    o = Obs()
                    o.result = "abort"
                    res.append(o)
                    self.executions += 1
                    k += 1
                    self._kill()
                    break
                res.append(o)
                self.executions += 1
                k += 1
                if o.result == "timeout":
                    self._kill()
                    break
            i += k
        return res

    def _kill(self):
        if self.proc is not None:
            try:
                self.proc.kill()
                self.proc.wait(timeout=5)
            except Exception:
                pass
            self.proc = None
            self.restarts += 1

    def run(self, case):
        return self.run_many([case])[0]

    def run_isolated(self, case, watchdog_ms=60000):
        """Re-run one case alone in a fresh driver with a generous budget."""
        self.isolated_reruns += 1
        d = Driver(self.path, self.scratch + "-iso", self.wrapper, self.env, self.cmd, self.cwd, self.stderr_path)
        old = case.watchdog_ms
        case.watchdog_ms = watchdog_ms
        try:
            return d.run(case)
        finally:
            case.watchdog_ms = old
            d.close()

    def healthy(self, budget_s=15.0):
        """Can this machine still run the driver at all?  A trivial case in a fresh driver must come back (any result that is
        an answer of jawk, i.e. not abort / timeout) within a generous budget.  When memory is exhausted (the driver dies on its
        first allocation, fork fails) or the machine is hopelessly overloaded, an abort or timeout of the case under
        suspicion says nothing about jawk."""
        t0 = time.time()
        d = Driver(self.path, self.scratch + "-probe", self.wrapper, self.env, self.cmd, self.cwd, self.stderr_path)
        try:
            o = d.run(Case([], b'1 [2] {"a":3}\n'))
        except Exception:
            return False
        finally:
            try:
                d.close()
            except Exception:
                pass
        if self.cmd or self.wrapper:
            budget_s *= 40          # Miri / valgrind start slowly
        return o.result not in ("abort", "timeout") and time.time() - t0 < budget_s

    def confirm(self, case, obs):
        """If obs is a timeout/abort, re-run in isolation; returns (obs, confirmed?).

        Confirmed means: the machine is demonstrably able to run the driver right before and right after (healthy()), and the
        isolated re-run ends the same way - for an abort three times, a few seconds apart (an abort is cheap to repeat, and a
        driver killed for lack of memory looks exactly like one that jawk took down).  Anything else is not a verdict."""
        if obs.result not in ("timeout", "abort"):
            return obs, True
        o2 = obs
        pauses = (0, 2, 6) if obs.result == "abort" else (0,)
        for pause in pauses:
            if pause:
                time.sleep(pause)
            if not self.healthy():
                self.unhealthy = getattr(self, "unhealthy", 0) + 1
                return o2, False
            try:
                o2 = self.run_isolated(case)
            except Exception:
                return obs, False
            if o2.result != obs.result:
                return o2, False
            if not self.healthy():
                self.unhealthy = getattr(self, "unhealthy", 0) + 1
                return o2, False
        return o2, True


# --------------------------------------------------------------------------
# statistics gathered by workers

class Stats:
    def __init__(self):
        self.counters = {}
        self.sets = {}
        self.samples = []
        self.violations = []      # dicts: sig, summary, unit, detail
        self.known = {}           # finding id -> {"count": n, "example": ...}
        self.inconclusive = {}
        self.notes = []

    def count(self, key, n=1):
        self.counters[key] = self.counters.get(key, 0) + n

    def see(self, setname, item):
        self.sets.setdefault(setname, set()).add(item)

    def sample(self, s, cap=6):
        if len(self.samples) < cap:
            self.samples.append(s)

    def violation(self, sig, summary, unit, detail=None):
        if len(self.violations) < 50:
            self.violations.append({"sig": sig, "summary": summary, "unit": unit, "detail": detail})
        self.count("violations_raw")

    def known_finding(self, fid, example):
        k = self.known.setdefault(fid, {"count": 0, "example": example})
        k["count"] += 1

    def inconc(self, reason, n=1):
        self.inconclusive[reason] = self.inconclusive.get(reason, 0) + n

    def merge(self, other):
        for k, v in other.counters.items():
            self.counters[k] = self.counters.get(k, 0) + v
        for k, v in other.sets.items():
            self.sets.setdefault(k, set()).update(v)
        for s in other.samples:
            if len(self.samples) < 8:
                self.samples.append(s)
        self.violations.extend(other.violations)
        for k, v in other.known.items():
            e = self.known.setdefault(k, {"count": 0, "example": v["example"]})
            e["count"] += v["count"]
        for k, v in other.inconclusive.items():
            self.inconclusive[k] = self.inconclusive.get(k, 0) + v
        self.notes.extend(other.notes)


class Ctx:
    """What a worker gets."""

    def __init__(self, prop, tier, seed, idx, nworkers, driver_path, hooks_on, deadline, params):
        self.prop = prop
        self.tier = tier
        self.seed = seed
        self.idx = idx
        self.nworkers = nworkers
        self.driver_path = driver_path
        self.hooks_on = hooks_on
        self.deadline = deadline
        self.params = params
        h = hashlib.sha256(("%s/%s/%s/%d" % (seed, prop, tier, idx)).encode()).digest()
        self.rng = random.Random(int.from_bytes(h[:8], "big"))
        self.scratch = os.path.join(TARGET, "scratch", "%s-%d-w%d" % (prop, os.getpid(), idx))
        self.drv = Driver(driver_path, self.scratch)
        self.stats = Stats()

    def time_left(self):
        return self.deadline - time.time()

    def expired(self):
        return time.time() > self.deadline


def _worker_entry(a):
    (modname, fname, prop, tier, seed, idx, nworkers, driver_path, hooks_on, deadline, params) = a
    ctx = Ctx(prop, tier, seed, idx, nworkers, driver_path, hooks_on, deadline, params)
    try:
        # a monitor that runs away (a workload far larger than intended) must end as a worker exception -> INCONCLUSIVE,
        # not as an exhausted machine
        import resource
        cap = int(os.environ.get("VERIF_WORKER_MEM_MB", "3072")) * 1024 * 1024
        resource.setrlimit(resource.RLIMIT_AS, (cap, resource.getrlimit(resource.RLIMIT_AS)[1]))   # soft limit only: children set their own
    except Exception:
        pass
    try:
        mod = __import__(modname, fromlist=["x"])
        orig = getattr(mod, "run_unit", None)
        if orig is not None and not getattr(orig, "_guarded", False):
            # a monitor that cannot interpret what it observed on one unit must not take the other units of this worker with
            # it: the unit is inconclusive (and so is the verdict, unless a violation is found), the worker goes on
            def guarded(c, unit, *a, **k):
                try:
                    return orig(c, unit, *a, **k)
                except MemoryError:
                    raise
                except Exception:
                    c.stats.inconc("worker_exception")
                    if c.stats.inconclusive.get("worker_exception", 0) == 1:
                        sys.stderr.write("NOTE monitor raised on a unit (worker %d): %s\n" % (c.idx, traceback.format_exc()[-1500:]))
                        sys.stderr.flush()
                    if len(c.stats.notes) < 3:
                        c.stats.notes.append("monitor raised on a unit (worker %d): %s" % (c.idx, traceback.format_exc()[-1500:]))
                    if c.stats.inconclusive.get("worker_exception", 0) > 50:
                        raise
            guarded._guarded = True
            mod.run_unit = guarded
        getattr(mod, fname)(ctx)
    except Exception:
        ctx.stats.notes.append("worker %d crashed: %s" % (idx, traceback.format_exc()[-2000:]))
        ctx.stats.inconc("worker_exception")
    finally:
        ctx.drv.close()
        shutil.rmtree(ctx.scratch, ignore_errors=True)
        shutil.rmtree(ctx.scratch + "-iso", ignore_errors=True)
        shutil.rmtree(ctx.scratch + "-probe", ignore_errors=True)
        shutil.rmtree(ctx.scratch + "-probe-iso", ignore_errors=True)
    ctx.stats.count("driver_executions", ctx.drv.executions)
    ctx.stats.count("driver_restarts", ctx.drv.restarts)
    ctx.stats.count("isolated_reruns", ctx.drv.isolated_reruns)
    if getattr(ctx.drv, "unhealthy", 0):
        ctx.stats.count("machine_unhealthy_at_confirmation", ctx.drv.unhealthy)
    return ctx.stats


def run_workers(modname, fname, prop, tier, seed, driver_path, hooks_on, budget_s, params=None,
                nworkers=None):
    nworkers = nworkers or NWORKERS
    deadline = time.time() + budget_s
    args = [(modname, fname, prop, tier, seed, i, nworkers, driver_path, hooks_on, deadline, params or {})
            for i in range(nworkers)]
    total = Stats()
    if nworkers == 1:
        total.merge(_worker_entry(args[0]))
        return total
    with multiprocessing.get_context("fork").Pool(nworkers) as pool:
        for st in pool.imap_unordered(_worker_entry, args):
            total.merge(st)
    return total


# --------------------------------------------------------------------------
# known findings

def load_known_findings(prop):
    """Returns (open: id -> text, fixed: list of text) for the property."""
    path = os.path.join(ROOT, "known-findings.txt")
    open_, fixed = {}, []
    if not os.path.exists(path):
        return open_, fixed
    for ln in open(path, encoding="utf-8"):
        ln = ln.strip()
        if not ln or ln.startswith("#"):
            continue
        if ln.startswith("finding:"):
            rest = ln[len("finding:"):].strip()
            parts = rest.split(None, 2)
            kv = dict(p.split("=", 1) for p in parts[:2] if "=" in p)
            if kv.get("property") == prop and "id" in kv:
                open_[kv["id"]] = parts[2] if len(parts) > 2 else ""
        elif ln.startswith("fixed:"):
            rest = ln[len("fixed:"):].strip()
            if ("property=%s " % prop) in rest + " ":
                fixed.append(rest)
    return open_, fixed


# --------------------------------------------------------------------------
# finishing a run: verdict, evidence, replay files

def finish(prop, tier, seed, level, stats, t0, rule, min_conclusive, assumptions, extra=None,
           exhaustive=None, nontrivial_set="nontrivial", evaluations_key="driver_executions", extra_distinct=0):
    """Print the verdict lines, write the evidence file, return the exit code."""
    open_findings, _fixed = load_known_findings(prop)
    # known findings reported by the oracle must be listed; otherwise they are violations
    violations = list(stats.violations)
    known_lines = []
    for fid, info in sorted(stats.known.items()):
        if fid in open_findings:
            known_lines.append("KNOWN-FINDING: property=%s %s (id=%s; fired %d times this run)" % (
                prop, open_findings[fid], fid, info["count"]))
        else:
            violations.append({"sig": "unlisted-finding:" + fid,
                               "summary": "defect model %s matched but is not listed as an open finding" % fid,
                               "unit": info["example"], "detail": None})
    # dedupe by signature
    seen = {}
    for v in violations:
        seen.setdefault(v["sig"], v)
    rdir = os.path.join(OUT, "replays", prop)
    code = 0
    for ln in known_lines:
        print(ln)
    for note in stats.notes[:5]:
        print("NOTE " + note.replace("\n", " | ")[:1500])
    if seen:
        os.makedirs(rdir, exist_ok=True)
        shown = 0
        for sig, v in sorted(seen.items()):
            shown += 1
            if shown > 12:
                print("... %d more distinct violation signatures not written" % (len(seen) - 12))
                break
            body = {"property": prop, "tier": tier, "seed": seed, "signature": sig,
                    "summary": v["summary"], "unit": enc(v["unit"]), "detail": enc(v["detail"])}
            name = hashlib.sha1((prop + sig + json.dumps(body["unit"], sort_keys=True)).encode()).hexdigest()[:16]
            path = os.path.join(rdir, name + ".json")
            with open(path, "w") as f:
                json.dump(body, f, indent=1)
            print("VIOLATION property=%s replay=%s  # %s: %s" % (prop, path, sig, v["summary"][:300]))
        code = 1
    evaluations = stats.counters.get(evaluations_key, 0)
    distinct = len(stats.sets.get(nontrivial_set, ())) + int(extra_distinct)
    conclusive = stats.counters.get("conclusive", evaluations)
    cov = {
        "evaluations": evaluations,
        "distinct_nontrivial": distinct,
        "rule": rule,
        "samples": [enc(s) for s in stats.samples] or ["(none)"],
        "counters": {k: v for k, v in sorted(stats.counters.items())},
        "distinct": {k: len(v) for k, v in sorted(stats.sets.items())},
        "inconclusive": stats.inconclusive,
        "known_findings_fired": {k: v["count"] for k, v in stats.known.items()},
    }
    if exhaustive is not None:
        cov["exhaustive"] = bool(exhaustive)
    if extra:
        cov.update(extra)
    ev = {
        "property_id": prop, "tier": tier, "seed": int(seed), "level": level, "coverage": cov,
        "assumptions": assumptions, "wall_s": round(time.time() - t0, 2), "violations": len(seen),
    }
    os.makedirs(os.path.join(OUT, "evidence"), exist_ok=True)
    with open(os.path.join(OUT, "evidence", prop + ".json"), "w") as f:
        json.dump(ev, f, indent=1, sort_keys=True)
    if code == 0 and (conclusive < min_conclusive or distinct < 2 or stats.inconclusive.get("worker_exception")):
        print("INCONCLUSIVE property=%s conclusive=%d (floor %d) distinct=%d inconclusive=%s" % (
            prop, conclusive, min_conclusive, distinct, stats.inconclusive))
        return 2
    print("%s property=%s tier=%s seed=%s evaluations=%d distinct_nontrivial=%d inconclusive=%s wall=%.1fs" % (
        "HELD" if code == 0 else "VIOLATED", prop, tier, seed, evaluations, distinct,
        sum(stats.inconclusive.values()), time.time() - t0))
    return code
