"""Parser from selection text to the AST of exprgen/exprmodel (documented grammar only)."""
from . import exprgen as eg, jsonmodel as jm


class ParseError(Exception):
    pass


KEY_END = set(" \t\r\n.,=()\"[]{}#") | {chr(c) for c in range(32)}


def parse(text):
    p = _P(text)
    p.ws()
    ast = p.expr()
    p.ws()
    if p.i != len(p.s):
        raise ParseError("trailing text at %d" % p.i)
    return ast


class _P:
    def __init__(self, s):
        self.s = s
        self.i = 0

    def ws(self):
        while self.i < len(self.s) and self.s[self.i] in " \t\r\n":
            self.i += 1

    def peek(self):
        return self.s[self.i] if self.i < len(self.s) else ""

    def expr(self):
        self.ws()
        c = self.peek()
        if c == "":
            raise ParseError("unexpected end")
        if c in ".#^":
            return self.path()
        if c == "(":
            return self.call()
        if c in ":@":
            self.i += 1
            j = self.i
            while j < len(self.s) and self.s[j] not in " \t\r\n),=":
                j += 1
            name = self.s[self.i:j]
            if not name:
                raise ParseError("empty name")
            self.i = j
            return ("var" if c == ":" else "macro", name)
        if c == "/":
            j = self.s.find("/", self.i + 1)
            if j < 0:
                raise ParseError("unterminated /name/")
            name = self.s[self.i + 1:j].strip()
            if not name:
                raise ParseError("empty name")
            self.i = j + 1
            return ("sel", name)
        if c == "&":
            raise ParseError("input context selectors are not modelled")
        # JSON literal
        data = self.s.encode("utf-8")
        off = len(self.s[:self.i].encode("utf-8"))
        try:
            v, j = jm.Reader(data).value(off)
        except jm.JsonError as e:
            raise ParseError(str(e))
        consumed = data[off:j].decode("utf-8")
        self.i += len(consumed)
        from .exprmodel import _normalise_parsed
        return ("lit", _normalise_parsed(jm.plain(v), ""))

    def path(self):
        n = 0
        while self.peek() == "^":
            n += 1
            self.i += 1
        steps = []
        first = True
        while True:
            c = self.peek()
            if c == ".":
                self.i += 1
                j = self.i
                while j < len(self.s) and self.s[j] not in KEY_END:
                    j += 1
                key = self.s[self.i:j]
                self.i = j
                if not key:
                    if steps or not first:
                        raise ParseError("missing key")
                    return ("path", n, ())
                steps.append(("k", key))
            elif c == "#":
                self.i += 1
                j = self.i
                while j < len(self.s) and self.s[j].isdigit():
                    j += 1
                if j == self.i:
                    if steps:
                        raise ParseError("missing index")
                    return ("path", n, ())
                steps.append(("i", int(self.s[self.i:j])))
                self.i = j
            else:
                break
            first = False
        if not steps and n and first:
            # "^" alone followed by something else
            raise ParseError("bare ^")
        return ("path", n, tuple(steps))

    def call(self):
        self.i += 1  # (
        j = self.i
        while j < len(self.s) and self.s[j] not in " \t\r\n,()" and ord(self.s[j]) >= 32:
            j += 1
        name = self.s[self.i:j]
        self.i = j
        args = []
        if name.startswith(".") and len(name) > 1:
            args.append(("path", 0, ()))
            name = name[1:]
        canon = name if name in eg.FUNCS else eg.ALIAS_OF.get(name)
        if canon is None:
            raise ParseError("unknown function %r" % name)
        while True:
            self.ws()
            c = self.peek()
            if c == ",":
                self.i += 1
            elif c == ")":
                self.i += 1
                break
            elif c == "":
                raise ParseError("unterminated call")
            else:
                args.append(self.expr())
        f = eg.FUNCS[canon]
        if len(args) < f["min"] or (f["max"] is not None and len(args) > f["max"]):
            raise ParseError("arity")
        return ("call", canon, tuple(args))
