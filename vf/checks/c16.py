"""C16 Read and write failures stop the run with an error, never a panic or silent loss.

Fault enumeration: for every generated (input, pipeline, policy) the fault-free run gives stdout0; then a hard read
error is injected at EVERY byte offset k in [0, len(input)] and a hard write error at EVERY offset k in [0, |stdout0|),
each as its own real execution of jawk::go under the instrumented boundary.
"""
from .. import core, jsonmodel as jm
from ..main import replay_unit
from . import c06

PROP = "C16"
LEVEL = "fault_enumeration"
RULE = ("per generated input (clean or noisy stream, 30-500 bytes) x policy x pipeline: one run per read-fault offset 0..len and per "
        "write-fault offset 0..|stdout0|-1 (exhaustive per input), plus variants with Interrupted results / short reads / short writes "
        "before the fault and stderr-writer faults; distinct_nontrivial = distinct (input, fault kind, offset) triples in which the "
        "fault was actually delivered")

PIPELINES = {
    "identity": ([], True),
    "select": (["--select", "(string? .)=s", "--select", ".=v"], True),
    "filter": (["--filter", "(not (number? .))"], True),
    "split": (["--split-by", "(? (array? .) . (push [] .))"], True),
    "unique": (["--unique"], True),
    "sort": (["--sort-by", "."], False),
    "group": (["--group-by", "(? (string? .) . \"other\")"], False),
    "merge": (["--merge"], False),
    "csv": (["-o", "csv", "--select", ".=v", "--select", "(number? .)=n"], True),
    "text": (["-o", "text", "--headers", "--select", ".=v"], True),
    # limits: the last wanted row is where the pipeline decides to stop, a write fault there must still surface
    "take1": (["--take", "1"], True),
    "take2": (["--take", "2"], True),
    "skip-take": (["--skip", "1", "--take", "2", "--select", ".=v"], True),
    "sort-take": (["--sort-by", ".", "--take", "2"], False),
    "unique-take": (["--unique", "--take", "3"], True),
    "merge-take": (["--take", "2", "--merge"], False),
    # options that make the reader pass over some values must not make it pass over a failure
    "only-oa": (["--only-objects-and-arrays"], True),
    "only-oa-select": (["--only-objects-and-arrays", "--select", "(size .)=n"], True),
}
POLICIES = ("ignore", "stdout", "stderr", "panic")


def gen_unit(rng):
    u = c06.gen_unit(rng)
    # every byte offset of the input becomes a fault point: keep inputs short (C06's very long regions do not belong here)
    u["gaps"] = [[t for t in g if len(t) <= 40][:6] for g in u["gaps"]]
    u["pipeline"] = rng.choice(list(PIPELINES))
    u["policy"] = rng.choice(POLICIES)
    if rng.random() < 0.5:
        u["gaps"] = [[] for _ in u["gaps"]]
    if u["policy"] == "panic" and rng.random() < 0.7:
        u["gaps"] = [[] for _ in u["gaps"]]
    u["variant_seed"] = rng.getrandbits(32)
    if rng.random() < 0.12 and u["policy"] != "panic":
        u["head"] = rng.choice(("efbbbf", "efbbbf", "fffe", "ef", "efbb", "efbbbfefbbbf", "00"))
    return u


def run_unit(ctx, unit):
    import random
    st = ctx.stats
    pargs, streaming = PIPELINES[unit["pipeline"]]
    args = ["--on-error", unit["policy"]] + pargs
    data, _ = c06.build(unit, True)
    if unit.get("head"):
        # bytes a reader may be tempted to treat specially at the start of an input (a byte-order mark): noise like any other
        data = bytes.fromhex(unit["head"]) + data
    base_case = core.Case(args, data)
    base = ctx.drv.run(base_case)
    if base.result in ("timeout", "abort", "panic"):
        st.inconc("fault_free_run_" + base.result)
        return
    out0 = base.stdout
    err0 = base.stderr
    vr = random.Random(unit["variant_seed"])
    cases = []
    n = len(data)
    for k in range(n + 1):
        cases.append(("read", k, core.Case(args, data, rfail=k)))
    for k in range(len(out0)):
        cases.append(("write", k, core.Case(args, data, wfail=k)))
    # variants: benign disturbances before the fault must change nothing
    for _ in range(min(40, n + 1)):
        k = vr.randrange(n + 1)
        intr = sorted(set(vr.randrange(2 * n + 2) for _ in range(vr.randint(1, 6))))
        cases.append(("read+intr", k, core.Case(args, data, rfail=k, rintr=intr, rsched=[vr.randint(1, 7) for _ in range(3)])))
    for _ in range(min(40, len(out0))):
        k = vr.randrange(len(out0))
        cases.append(("write+short", k, core.Case(args, data, wfail=k, wshort=[vr.randint(1, 9) for _ in range(4)],
                                                  wintr=sorted(set(vr.randrange(60) for _ in range(3))))))
    # a source that fails once and then delivers again (a receive timeout, EAGAIN): the failed read still ends the run
    for k in list(range(min(n + 1, 8))) + [vr.randrange(n + 1) for _ in range(min(20, n + 1))]:
        cases.append(("read-once", k, core.Case(args, data, rfail=k, ronce=True)))
    # a sink that fails once and then takes bytes again (EAGAIN on a full pipe that is drained a moment later): the failed
    # write still ends the run, and nothing is written behind the gap
    for _ in range(min(25, len(out0))):
        k = vr.randrange(len(out0))
        cases.append(("write-once", k, core.Case(args, data, wfail=k, wonce=True)))
    # disturbances without a fault: same stdout, same result
    cases.append(("benign", -1, core.Case(args, data, rintr=[0, 1, 5, 9], wshort=[1, 3, 2], wintr=[0, 2, 7])))
    if err0:
        for k in range(len(err0)):
            cases.append(("stderr-write", k, core.Case(args, data, efail=k)))
    unit_id = hash(data) & 0xFFFFFFFF
    if vr.random() < 0.3 or (unit["policy"] == "stdout" and any(unit["gaps"])):
        # the same stream as a file (inside a directory argument, next to a second file): the output of such a run - rows and,
        # under --on-error=stdout, error lines alike - is written to the same stdout, and a failing write ends the run
        fargs = ["@D@/in"] + args
        ffiles = [("in/a.json", data), ("in/b.json", b'{"later": 1}\n[2]\n')]
        fbase = ctx.drv.run(core.Case(fargs, b"", files=ffiles))
        if fbase.result not in ("timeout", "abort", "panic") and len(fbase.stdout) > 0:
            fout = fbase.stdout
            ks = range(len(fout)) if len(fout) <= 60 else sorted(set(vr.randrange(len(fout)) for _ in range(60)))
            fcases = [("write-dir", k, core.Case(fargs, b"", files=ffiles, wfail=k)) for k in ks]
            fcases += [("write-dir-once", k, core.Case(fargs, b"", files=ffiles, wfail=k, wonce=True)) for k in ks]
            for c in fcases:
                c[2].watchdog_ms = 8000
            if _judge(ctx, unit, fargs, data, fbase, streaming, unit_id, fcases, ctx.drv.run_many([c for _, _, c in fcases])):
                return
            st.count("directory_input_fault_sets")
    if vr.random() < 0.25:
        # a FILE whose read fails (a link to /proc/self/mem: reading it at offset 0 is an I/O error): named directly, with a
        # name that is not UTF-8, or met inside a directory next to a good file - the run ends with an error, under every policy
        nm = ("pm.json", "caf\udce9.json", "sub/pm\udcff\udcfe.json")[vr.randrange(3)]     # (a name that is not UTF-8 cannot be an argument itself)
        layouts = [("read-file", core.Case(args + ["@D@/pm.json"], b"", links=[("pm.json", "/proc/self/mem")])),
                   ("read-file-in-directory", core.Case(args + ["@D@/rd1"], b"", links=[("rd1/" + nm, "/proc/self/mem")]))]
        if "take" not in unit["pipeline"]:
            layouts += [("read-file-after-good", core.Case(args + ["@D@/good.json", "@D@/pm.json"], b"", files=[("good.json", data)], links=[("pm.json", "/proc/self/mem")])),
                        ("read-file-next-to-good", core.Case(args + ["@D@/rd"], b"", files=[("rd/a.json", data)], links=[("rd/" + nm, "/proc/self/mem")]))]
        for (kind, case), o in zip(layouts, ctx.drv.run_many([c for _, c in layouts])):
            if o.result in ("timeout", "abort"):
                st.inconc("watchdog_file_read_fault")
                continue
            st.count("file_read_fault_runs")
            if o.result != "err":
                st.violation("fault-" + ("swallowed" if o.result == "ok" else o.result) + ":" + kind, "a file whose read fails (%s, policy %s, pipeline %s): result %s %s" % (
                    kind, unit["policy"], unit["pipeline"], o.result, o.panicinfo or o.errtext), dict(unit, focus=[kind, 0]), {"args": case.args, "obs": o.brief()})
                return
    # in chunks, so that a fault that makes jawk hang is reported after one confirmation instead of after a watchdog period
    # for every offset of the unit
    for c in cases:
        c[2].watchdog_ms = 8000
    for at in range(0, len(cases), 48):
        chunk = cases[at:at + 48]
        if _judge(ctx, unit, args, data, base, streaming, unit_id, chunk, ctx.drv.run_many([c for _, _, c in chunk])):
            return
    st.count("conclusive")
    st.count("inputs")


def _judge(ctx, unit, args, data, base, streaming, unit_id, cases, obs):
    """True when a violation was reported (the unit is finished)."""
    st = ctx.stats
    out0, err0 = base.stdout, base.stderr
    for (kind, k, case), o in zip(cases, obs):
        if o.result in ("timeout", "abort"):
            o, ok = ctx.drv.confirm(case, o)
            if not ok:
                st.inconc("watchdog_not_reproduced")
                continue

        def bad(sig, msg):
            st.violation(sig, "%s fault at offset %d (pipeline %s, policy %s): %s" % (kind, k, unit["pipeline"], unit["policy"], msg),
                         dict(unit, focus=[kind, k]),
                         {"args": args, "input": data[:1200], "fault_free_stdout": out0[:800], "obs": o.brief(),
                          "reads_after_error": o.reads_after_error})
        st.count("fault_runs")
        if o.result == "panic" or o.result in ("timeout", "abort"):
            bad("fault-" + o.result, "%s %s" % (o.result, o.panicinfo))
            return True
        if kind == "benign":
            if o.result != base.result or o.stdout != out0 or o.stderr != err0:
                bad("benign-disturbance-visible", "Interrupted results / short writes changed the outcome")
                return True
            st.count("benign_runs")
            continue
        delivered = (o.r_errored if kind.startswith("read") else o.e_errored if kind == "stderr-write" else o.o_errored)
        if not delivered:
            # the run ended before reaching the fault point (e.g. it failed earlier for its own reasons)
            if o.result == base.result and o.stdout == out0:
                st.count("fault_not_reached")
                continue
            if base.result == "err" and o.result == "err" and out0.startswith(o.stdout):
                st.count("fault_not_reached")
                continue
            bad("undelivered-fault-changed-run", "the fault was never delivered yet the run differs from the fault-free run")
            return True
        st.count("faults_delivered")
        st.see("nontrivial", (unit_id, kind, k))
        st.see("kinds", kind)
        if o.result != "err":
            bad("fault-swallowed", "result is %s although the %s failed" % (o.result, kind.split("+")[0]))
            return True
        if kind.startswith("read"):
            if kind == "read-once":
                if o.reads_after_error:
                    bad("read-after-error", "%d read calls after the (transient) read error; %d bytes pulled, fault at %d" % (o.reads_after_error, o.pulled, k))
                    return True
                if streaming and not out0.startswith(o.stdout):
                    bad("not-a-prefix", "stdout is not a prefix of the fault-free stdout")
                    return True
                st.count("read_faults")
                continue
            if o.reads_after_error:
                bad("read-after-error", "%d read calls after the read error" % o.reads_after_error)
                return True
            if o.pulled != k:
                bad("fault-offset", "pulled %d bytes, fault at %d" % (o.pulled, k))
                return True
            if streaming:
                if not out0.startswith(o.stdout):
                    bad("not-a-prefix", "stdout is not a prefix of the fault-free stdout")
                    return True
            st.count("read_faults")
        elif kind.startswith("write"):
            if o.o_after_error and kind.endswith("once"):
                bad("write-after-error", "%d write calls after the failed one (the sink took them: %d bytes behind the gap)" % (o.o_after_error, len(o.stdout) - k))
                return True
            if o.stdout != out0[:k]:
                bad("write-prefix", "accepted bytes are not the first %d bytes of the fault-free stdout" % k)
                return True
            st.count("write_faults")
        else:
            if streaming and not out0.startswith(o.stdout):
                bad("not-a-prefix", "stdout is not a prefix of the fault-free stdout (stderr fault)")
                return True
            st.count("stderr_faults")
    return False


def worker(ctx):
    st = ctx.stats
    for i in range(ctx.params["units_per_worker"]):
        if ctx.expired():
            st.count("stopped_by_deadline")
            break
        unit = gen_unit(ctx.rng)
        run_unit(ctx, unit)
        st.see("cells", (unit["pipeline"], unit["policy"]))
        if i < 1 and ctx.idx < 2:
            st.sample({"pipeline": unit["pipeline"], "policy": unit["policy"],
                       "input": c06.build(unit)[0][:300].decode("latin-1")})


def run(env):
    quick = env.tier == "quick"
    stats = core.run_workers(__name__, "worker", PROP, env.tier, env.seed, env.driver, env.hooks_on,
                             45 if quick else 600, {"units_per_worker": 40 if quick else 1500})
    return core.finish(PROP, env.tier, env.seed, LEVEL, stats, env.t0, RULE, min_conclusive=50 if quick else 1000,
                       exhaustive=True,
                       extra={"explanation": "exhaustive = every byte offset of every generated input/output was used as a fault point; the inputs themselves are sampled"},
                       assumptions=["faults are injected at the Read/Write objects handed to jawk::go; read faults on files (BufReader<File>) are not injectable without interposing on libc and share read_input with stdin"])


def replay(env, unit):
    return replay_unit(env, run_unit, unit)
