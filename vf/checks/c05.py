"""C05 No input data and no parsable expression can make jawk panic or hang.

Oracle = the boundary itself: catch_unwind + panic hook (location and message), death of the driver process, and a
watchdog whose firing is only believed after the single case was re-run alone in a fresh process with a 60 s budget.
Workloads: (1) exhaustive byte strings over the 24-byte JSON alphabet (jdrive enum5, in Rust, 16 threads);
(2) mutated valid streams up to 4 KiB (bit flips, truncation, splices, invalid UTF-8), nesting <= 64;
(3) generated expressions (50 % ill-typed, multi-byte characters at every offset of the expression text and of the
subject, numeric arguments on boundaries) in --select; (4) the same in every other option position; x the four
--on-error policies; release and debug (overflow checks) drivers.  Thorough adds ASan / valgrind / Miri shards.
"""
import os
import subprocess
import time

from .. import core, exprgen as eg, jsonmodel as jm, streams
from ..main import replay_unit

PROP = "C05"
LEVEL = "exploration"
RULE = ("(1) every byte string of length <= L over the 24-byte alphabet {}[],:\"\\-+.019eEtrunfa SP LF (L = 4 complete + 1/8 shard of L = 5 in quick, "
        "L = 6 complete in thorough), policy rotating; (2) seeded mutations of valid streams <= 4 KiB; (3)+(4) generated expressions over the 108 "
        "pure functions in every option position on generated inputs. distinct_nontrivial = distinct byte strings enumerated + distinct "
        "(function set, option position, policy) of expression cases + distinct mutated inputs")
POLICIES = ("ignore", "panic", "stderr", "stdout")
POSITIONS = ("select", "filter", "split", "sort", "group", "set-macro", "select-after-split")


# ---------------------------------------------------------------- (2) mutated streams

def mutate(rng, data):
    b = bytearray(data)
    for _ in range(rng.choice((1, 1, 2, 3, 8))):
        if not b:
            b = bytearray(b"[")
        k = rng.randrange(8)
        i = rng.randrange(len(b))
        if k == 0:
            b[i] ^= 1 << rng.randrange(8)
        elif k == 1:
            del b[i:]
        elif k == 2:
            j = rng.randrange(len(b))
            b[i:i] = b[j:j + rng.randint(1, 20)]
        elif k == 3:
            b[i:i] = bytes([rng.choice((0xFF, 0xC3, 0x80, 0xE2, 0xF0, 0xED, 0xA0, 0x00, 0x7F))])
        elif k == 4:
            del b[i:i + rng.randint(1, 10)]
        elif k == 5:
            b[i:i] = rng.choice((b"\\u", b"\\", b'"', b"e", b"E+", b"-", b".", b"1e999", b"-0", b"\\ud800", b"\\uDFFF", b"tru", b"nul", b"[" * 30, b"{\"a\":" * 20))
        elif k == 6:
            b[i] = rng.choice(b"{}[],:\"\\-+.0eEtfn \n")
        else:
            b[i:i] = bytes(rng.randrange(256) for _ in range(rng.randint(1, 6)))
    return bytes(b[:4096])


def gen_bytes_unit(rng):
    data, exp, spans, info = streams.gen_stream(rng, nvalues=rng.choice((1, 2, 5, 10)), maxdepth=4)
    return {"kind": "bytes", "input": mutate(rng, data), "policy": rng.choice(POLICIES),
            "args": rng.choice(([], [], ["--select", ".=v"], ["--unique"], ["--sort-by", "."], ["--merge"], ["-o", "text"],
                                ["-o", "csv", "--select", ".=v"], ["--style", "pretty"], ["--utf8-strings"]))}


# ---------------------------------------------------------------- (3)/(4) expressions

def shift_text(rng):
    """Strings whose multi-byte characters sit at chosen byte offsets."""
    pad = rng.randint(0, 40)
    ch = rng.choice(("é", "日", "😃", "ü", "Ω"))
    return "a" * pad + ch + rng.choice(("", "b", ch))


# ---------------------------------------------------------------- (5) boundary matrix

NUM_FUNCS_2 = ["+", "-", "*", "/", "%", "add", "minus", "times", "divide", "mod", "<", "=", "take", "take_last", "head", "tail", "get", "range",
               "format_time", "sub"]
NUM_FUNCS_1 = ["abs", "round", "floor", "ceil", "-", "range", "stringify", "as_number", "not", "size"]
NAS_FUNCS_2 = ['"+"', '"-"', '"*"', '"/"', '"%"', '"<"', '"="']
NAS_FUNCS_1 = ['"abs"', '"round"', '"||"', '"-"']
NAS_EXTREMES = ["0", "-0", "1", "-1", "1e1000", "1e-1000", "-1E+999", "9" * 60, "0." + "0" * 40 + "1", "0e0", "1e", "", ".", "-", "1e999",
                "18446744073709551616", "-9223372036854775809", "-9223372036854775808", "9223372036854775807", "18446744073709551615", "-2147483648", "00", "1.", ".5", "+1", "1e+", "NaN", "inf"]
STR_BOUNDARY = ["", "a", "é", "😃", "\u0000", "aa", " "]


def gen_matrix_unit(rng):
    """One left operand against every right operand of the boundary set, for one function (integers at the edges of i64 /
    u64 / 2^53, extreme doubles; number-as-string operands; empty and one-character strings)."""
    r = rng.random()
    if r < 0.55:
        f = rng.choice(NUM_FUNCS_2 + NUM_FUNCS_1)
        a = rng.choice(eg.EXTREME_NUMS)
        small = [b for b in eg.EXTREME_NUMS if abs(b) <= 10000]      # the property bounds range/collection sizes by 10^4
        if f == "range":
            exprs = ["(size (range %s))" % jm.dumps(b) for b in small + [10000, 9999, 2.5, -3]]
        elif f in NUM_FUNCS_1 and rng.random() < 0.5:
            exprs = ["(%s %s)" % (f, jm.dumps(b)) for b in eg.EXTREME_NUMS]
        elif f in ("take", "take_last", "head", "tail", "get"):
            subj = rng.choice(('"héllo"', "[1,2,3]", '{"a":1,"b":2}', '""', "[]"))
            exprs = ["(%s %s %s)" % (f, subj, jm.dumps(b)) for b in eg.EXTREME_NUMS]
        elif f == "sub":
            subj = rng.choice(('"héllo"', "[1,2,3]", '{"a":1,"b":2}'))
            exprs = ["(sub %s %s %s)" % (subj, jm.dumps(a), jm.dumps(b)) for b in eg.EXTREME_NUMS]
        elif f == "format_time":
            # every magnitude (seconds, milliseconds, microseconds, nanoseconds since the epoch, and beyond), both signs
            mags = [s * m * 10 ** e for e in range(0, 20) for m in (1, 17, 82, 93) for s in (1, -1)]
            exprs = ['(format_time %s "%%Y-%%m-%%d %%H:%%M:%%S")' % jm.dumps(b) for b in eg.EXTREME_NUMS + rng.sample(mags, 40)]
        else:
            exprs = ["(%s %s %s)" % (f, jm.dumps(a), jm.dumps(b)) for b in eg.EXTREME_NUMS]
    elif r < 0.8:
        f = rng.choice(NAS_FUNCS_2 + NAS_FUNCS_1)
        a = rng.choice(NAS_EXTREMES)
        if f in NAS_FUNCS_1 and rng.random() < 0.6:
            exprs = ["(%s %s)" % (f, jm.dumps(b)) for b in NAS_EXTREMES]
        else:
            exprs = ["(%s %s %s)" % (f, jm.dumps(a), jm.dumps(b)) for b in NAS_EXTREMES]
    else:
        f = rng.choice(("split", "concat", "join", "match", "extract_regex_group", "parse", "parse_time", "base63_decode", "env", "put", "get"))
        a = rng.choice(STR_BOUNDARY)
        tm = {"split": "(split %s %s)", "concat": "(concat %s %s)", "join": "(join [%s, %s] %s)", "match": "(match %s %s)",
              "extract_regex_group": "(extract_regex_group %s %s 0)", "parse": "(parse (concat %s %s))", "parse_time": "(parse_time %s %s)",
              "base63_decode": "(base63_decode (concat %s %s))", "env": "(env (concat %s %s))", "put": "(put {} %s %s)", "get": "(get {\"\":1} (concat %s %s))"}[f]
        exprs = []
        for b in STR_BOUNDARY:
            qa, qb = '"%s"' % a, '"%s"' % b
            exprs.append(tm % ((qa, qb, qb) if tm.count("%s") == 3 else (qa, qb)))
    return {"kind": "expr", "pos": "select", "exprs": exprs, "funcs": [f], "matrix": True,
            "input": b'null {"n":-9223372036854775808,"m":-1,"s":"","u":18446744073709551615}', "policy": rng.choice(POLICIES)}


def gen_expr_unit(rng):
    g = eg.Gen(rng, ill_typed=0.5 if rng.random() < 0.7 else 0.1, maxdepth=rng.choice((2, 3, 4)), nonascii=0.4, big_n=0.3,
               extreme_n=rng.choice((0.0, 0.1, 0.3)))
    pos = rng.choice(POSITIONS)
    exprs = [g.gen(rng.choice(eg.KINDS), eg.Scope()) for _ in range(rng.choice((1, 2, 4)))]
    # plant multi-byte subjects / patterns at every offset of the expression text
    if rng.random() < 0.5:
        s = shift_text(rng)
        f = rng.choice(("head", "tail", "take", "take_last", "sub", "size", "split", "match", "extract_regex_group", "concat", "parse", "get",
                        "format_time", "parse_time", "base63_decode", "env", "stringify", "join"))
        n = rng.choice((0, 1, 2, 3, 31, 32, 33, 40, 41, 10000, 18446744073709551615, 9223372036854775807))
        m = rng.choice((0, 1, 2, 5, 18446744073709551615, 18446744073709551614))
        tmpl = {"head": '(head %s %d)', "tail": '(tail %s %d)', "take": '(take %s %d)', "take_last": '(take_last %s %d)',
                "sub": '(sub %s %d ' + str(m) + ')', "size": '(size %s)', "split": '(split %s "é")', "match": '(match %s %s)',
                "extract_regex_group": '(extract_regex_group %s "(.)(é)?" %d)', "concat": '(concat %s %s)', "parse": '(parse %s)',
                "get": '(get %s %d)', "format_time": '(format_time %d %s)', "parse_time": '(parse_time %s "%%Y-é")',
                "base63_decode": '(base63_decode %s)', "env": '(env %s)', "stringify": '(stringify %s)', "join": '(join [%s, %s] %s)'}[f]
        lit = jm.dumps(s)
        cnt = tmpl.count("%s") + tmpl.count("%d")
        if f == "format_time":
            text = tmpl % (rng.choice((0, 1700000000, 2 ** 62, -1)), lit)
        else:
            argsv = []
            for part in tmpl.replace("%%", "").split("%")[1:]:
                argsv.append(lit if part[0] == "s" else n)
            text = tmpl % tuple(argsv)
        exprs.append(("raw", text))
    inputs = [eg.gen_input(rng) for _ in range(rng.choice((1, 3, 6)))]
    if rng.random() < 0.3:
        inputs.append({"s": shift_text(rng), "u": shift_text(rng), "strs": [shift_text(rng)], "arr": [1, 2], "i": rng.choice((0, 1, 2, 33))})
    if rng.random() < 0.1:
        pool = [2 ** 64 - 1, 2 ** 64 - 2, 2 ** 64, 2 ** 64 + 2048, 2 ** 63, 2 ** 63 - 1, -(2 ** 63), -(2 ** 63) + 1, -(2 ** 63) - 1025, 2 ** 53, 2 ** 53 + 1,
                1.8446744073709552e19, -9.223372036854776e18, 0, -0.0, 0.5, 1e300, -1e300, 5e-324, 18446744073709550000]
        big = [rng.choice(pool) for _ in range(rng.choice((21, 24, 40, 100)))]
        inputs.append({"arr": big, "objs": [{"n": x, "s": "k"} for x in big[:30]], "obj": {"k%d" % i: x for i, x in enumerate(big[:25])}, "n": 1, "i": 3})
    if rng.random() < 0.25:
        inputs.append({"n": rng.choice(eg.EXTREME_NUMS), "i": rng.choice((0, 1, 10000, 9999)), "arr": rng.sample(eg.EXTREME_NUMS, 3), "s": "", "u": "",
                       "strs": ["", ""], "obj": {"a": rng.choice(eg.EXTREME_NUMS)}, "nas": rng.choice(NAS_EXTREMES), "t": rng.choice(eg.EXTREME_NUMS)})
    return {"kind": "expr", "pos": pos, "exprs": [eg.show(e, rng, rng.random() < 0.3) for e in exprs],
            "funcs": sorted(set().union(*[eg.functions_in(e) for e in exprs if e[0] != "raw"])) if exprs else [],
            "input": "\n".join(jm.dumps(v) for v in inputs).encode("utf-8"), "policy": rng.choice(POLICIES)}


EXEC_EXPRS = ['(exec "true")', '(exec "false")', '(exec "no-such-program-xyz")', '(exec "echo" .s)', '(exec "cat" .s)', '(exec "cat" .big)', '(exec 5)',
              '(exec "sh" "-c" "exit 3")', '(exec "sh" "-c" "kill -9 $$")', '(exec "sh" "-c" "printf \\"\\\\377\\\\376\\"")',
              # children that fill one pipe while the other is still open, in both orders, and both at once
              '(exec "sh" "-c" "head -c 200000 /dev/zero >&2; echo done")', '(exec "sh" "-c" "head -c 200000 /dev/zero; echo done >&2")',
              '(exec "sh" "-c" "head -c 150000 /dev/zero >&2 & head -c 150000 /dev/zero; wait")', '(exec "sh" "-c" "exec 1>&-; head -c 100000 /dev/zero >&2")',
              '(exec "echo" .s .s 5 null [1] {})', '(exec "")', '(exec .s)',
              # fire and forget: the run does not wait for what it triggered
              '(trigger "sleep" "70")', '(trigger "no-such-program-xyz")', '(trigger "true")', '(trigger 5)', '(trigger "sh" "-c" "sleep 70; echo late")']


def gen_deep_unit(rng):
    """Expressions nested as deep as the property allows (<= 64), built from one wrapper repeated: the cost of evaluating them
    must not explode with the depth (each level selects, falls through to, or hands on its one interesting argument)."""
    d = rng.choice((20, 30, 48, 60, 64))
    w = rng.choice(("default", "default-last", "if", "if-cond", "pipe", "not", "set", "define", "map", "push", "and", "or_else", "concat"))
    e = ".k%d" % d if w in ("default", "default-last", "or_else") else ".v"
    for i in range(d - 1, -1, -1):
        if w == "default":
            e = "(default .k%d %s)" % (i, e)
        elif w == "or_else":
            e = "(or_else .k%d .j%d %s)" % (i, i, e)
        elif w == "default-last":
            e = "(default %s .k%d)" % (e, i)
        elif w == "if":
            e = "(? (null? .nosuch) .k%d %s)" % (i, e) if i % 2 else "(? (number? .v) %s .k%d)" % (e, i)
        elif w == "if-cond":
            e = "(? (number? %s) .v .nosuch)" % e
        elif w == "pipe":
            e = "(| . %s)" % e
        elif w == "not":
            e = "(not %s)" % e
        elif w == "set":
            e = "(set \"x%d\" %s (default :x%d .v))" % (i % 3, e, i % 3)
        elif w == "define":
            e = "(define \"m%d\" %s (default @m%d .v))" % (i % 3, e, i % 3)
        elif w == "map":
            e = "(first (map (push [] .) %s))" % e.replace(".v", "^" * 0 + ".v")
        elif w == "push":
            e = "(first (push [] %s))" % e
        elif w == "and":
            e = "(and true %s)" % e if i else "(and true (number? %s))" % e
        else:
            e = "(concat \"\" %s)" % e if i else "(concat \"\" (stringify %s))" % e
    rec = {"v": 7, "k%d" % d: 7}
    return {"kind": "expr", "pos": rng.choice(("select", "filter", "sort", "group")), "exprs": [e], "funcs": ["deep:" + w], "deep": True,
            "input": (jm.dumps(rec) + "\n" + jm.dumps(rec)).encode("utf-8"), "policy": rng.choice(POLICIES)}


def gen_selfref_unit(rng):
    """`parse_selection` applied to text from the record is a documented use; the record decides what that text is.  Here it
    is hostile: the text applies parse_selection to the member it came from (directly, through a second member, wrapped in a
    pipe / default / map), or it is an honest chain of up to twenty texts each handing on to the next.  Always one nested call
    per level (a text that calls itself twice is a resource question, 2^depth, and out of scope)."""
    shape = rng.choice(("self", "self", "mutual", "wrapped", "chain", "list"))
    if shape == "self":
        rec, e = {"e": "(parse_selection .e)"}, "(parse_selection .e)"
    elif shape == "mutual":
        rec, e = {"a": "(parse_selection .b)", "b": "(| . (parse_selection .a))", "n": 1}, rng.choice(("(parse_selection .a)", "(parse_selection .b)"))
    elif shape == "wrapped":
        w = rng.choice(("(default (parse_selection .e) 1)", "(| . (parse_selection .e))", "(first (map [1] (parse_selection ^.e)))",
                        "(set \"x\" 1 (parse_selection .e))", "(concat \"\" (parse_selection .e))", "(? true (parse_selection .e) 2)"))
        rec, e = {"e": w}, rng.choice(("(parse_selection .e)", w))
    elif shape == "list":
        rec, e = {"texts": ["(+ 1 2)", "(map ^.texts (parse_selection .))", ".nosuch"]}, "(map .texts (parse_selection .))"
    else:
        n = rng.choice((2, 5, 12, 20))
        rec = {"e%d" % i: "(parse_selection .e%d)" % (i + 1) for i in range(n)}
        rec["e%d" % n] = "(+ 40 2)"
        e = "(parse_selection .e0)"
    return {"kind": "expr", "pos": rng.choice(("select", "filter", "sort", "group", "set-macro")), "exprs": [e], "funcs": ["selfref:" + shape], "selfref": True,
            "input": (jm.dumps(rec) + "\n" + jm.dumps({"e": ".n", "n": 5})).encode("utf-8"), "policy": rng.choice(POLICIES)}


def gen_sortlist_unit(rng):
    """Every sorting function over long lists (> 20 elements: the standard library's sort changes algorithm there and checks
    its comparator) of numbers that are hard to order: neighbours of 2^64 and 2^63, results of overflowed arithmetic (inf, NaN
    arise only inside expressions), mixed with a few ordinary values."""
    pool = [2 ** 64 - 1, 2 ** 64 - 2, 2 ** 64, 2 ** 64 + 2048, 2 ** 63, 2 ** 63 - 1, -(2 ** 63), -(2 ** 63) + 1, -(2 ** 63) - 1025, 2 ** 53, 2 ** 53 + 1,
            1.8446744073709552e19, -9.223372036854776e18, 0, 0.5, 1e300, -1e300, 5e-324, 18446744073709550000, -1, 7]
    n = rng.choice((2, 3, 21, 24, 40, 100))
    arr = [rng.choice(pool) for _ in range(n)]
    src = rng.choice((".arr", ".arr", "(map .arr (* . 1e300 1e300))", "(map .arr (- (* . 1e300 1e300) (* . 1e300 1e300)))", "(map .arr (/ . 0.0))",
                      "(map .arr (? (> . 0) (- (* 1e300 1e300) (* 1e300 1e300)) .))", "(map .arr (% (* . 1e300 1e300) 7))"))
    fns = ["(sort %s)", "(sort_unique %s)", "(sort_by %s .)", "(sort_by %s (- .))", "(order %s)", "(reverese (sort %s))", "(last (sort %s))", "(sort_by_values (fold %s {} (put .so_far (stringify .index) .value)))",
           "(group_by %s (stringify .))", "(first (sort %s))", "(sum %s)", "(join (sort %s) \",\")"]
    exprs = [f % src for f in rng.sample(fns, 4)]
    return {"kind": "expr", "pos": rng.choice(("select", "select", "sort", "filter")), "exprs": exprs, "funcs": ["sortlist"], "sortlist": True,
            "input": jm.dumps({"arr": arr}).encode("utf-8"), "policy": rng.choice(POLICIES)}


def _names(rng):
    import json as _json
    global _FUNCTION_NAMES
    try:
        _FUNCTION_NAMES
    except NameError:
        t = _json.load(open(os.path.join(os.path.dirname(os.path.dirname(os.path.abspath(__file__))), "function_table.json")))
        _FUNCTION_NAMES = sorted((x["name"] if isinstance(x, dict) else x) for x in (t if isinstance(t, list) else t.get("functions", t)))
        _FUNCTION_NAMES = [n for n in _FUNCTION_NAMES if n not in ("exec", "trigger", "now")]
    return _FUNCTION_NAMES


def gen_arity_unit(rng):
    """Every function name with 0..5 arguments drawn from a few boundary values: most of these calls are rejected when the
    expression is parsed (an error, fine); whatever is accepted must evaluate without a panic.  (The table of names is the
    documented one; the number of arguments is NOT taken from it.)"""
    f = rng.choice(_names(rng))
    pool = ["0", "1", "-1", "0.0", "\"\"", "\"a\"", "null", "[]", "[1,2,3]", "{}", ".n", ".arr", ".s", "10", "true", "(size [])", ".nosuch", "3", "2"]
    exprs = []
    for n in rng.sample(range(0, 6), 3):
        exprs.append("(%s%s)" % (f, "".join(" " + rng.choice(pool) for _ in range(n))))
    return {"kind": "expr", "pos": "select", "exprs": exprs[:1], "funcs": ["arity:" + f], "arity": True,
            "input": b'{"n":0,"arr":[1,2,3],"s":"x"} {"n":5,"arr":[],"s":""}', "policy": rng.choice(POLICIES)}


ARITY_POOL_QUICK = ["0", "1", "\"a\"", ".arr", "null"]
ARITY_POOL_THOROUGH = ["0", "1", "-1", "\"a\"", ".arr", "null", "{}", "2.5"]


def arity_worker(ctx):
    """Complete sweep: every documented function name x every argument count 0..N x every tuple of arguments over a small
    pool of boundary values.  Most tuples are rejected when the expression is parsed or evaluate to nothing; none may panic."""
    import itertools
    st = ctx.stats
    _names(ctx.rng)
    pool, nmax = ctx.params["arity_pool"], ctx.params["arity_max"]
    k = 0
    for f in _FUNCTION_NAMES[ctx.idx::ctx.nworkers]:
        for n in range(nmax + 1):
            for tup in itertools.product(pool, repeat=n):
                if ctx.expired():
                    st.count("arity_sweep_stopped_by_deadline")
                    return
                k += 1
                unit = {"kind": "expr", "pos": "select", "exprs": ["(%s%s)" % (f, "".join(" " + a for a in tup))], "funcs": ["arity:" + f],
                        "arity": True, "input": b'{"n":0,"arr":[1,2,3],"s":"x"} {"n":5,"arr":[],"s":""}', "policy": POLICIES[k % len(POLICIES)]}
                run_unit(ctx, unit)
                st.count("arity_sweep_cases")


def gen_exec_unit(rng):
    """`exec` with a fixed list of harmless commands: whatever the child does with its two pipes and its exit status, jawk
    comes back with a value or nothing."""
    exprs = rng.sample(EXEC_EXPRS, rng.choice((1, 2, 3)))
    return {"kind": "expr", "pos": "select", "exprs": exprs, "funcs": ["exec"], "exec": True,
            "input": ('{"s":"abc","big":"' + "n" * rng.choice((10, 5000, 70000, 100000)) + '"} "x" 5').encode(), "policy": rng.choice(POLICIES)}


def expr_args(unit):
    a = ["--on-error", unit["policy"]]
    pos = unit["pos"]
    ex = unit["exprs"]
    if pos == "select":
        for i, e in enumerate(ex):
            a += ["--select=%s=c%d" % (e, i)]
    elif pos == "filter":
        a += ["--filter=" + ex[0]]
    elif pos == "split":
        a += ["--split-by=" + ex[0]]
    elif pos == "sort":
        for e in ex[:3]:
            a += ["--sort-by=" + e]
    elif pos == "group":
        a += ["--group-by=" + ex[0]]
    elif pos == "set-macro":
        a += ["--set", "@mm=" + ex[0], "--select", "@mm=x"]
    else:
        a += ["--split-by", ".arr"]
        for i, e in enumerate(ex):
            a += ["--select=%s=c%d" % (e, i)]
    return a


def run_unit(ctx, unit):
    st = ctx.stats
    if unit["kind"] == "bytes":
        case = core.Case(["--on-error", unit["policy"]] + unit["args"], unit["input"])
    else:
        case = core.Case(expr_args(unit), unit["input"])
    drv = ctx.drv if not unit.get("debug") else ctx.debug_drv
    o = drv.run(case)
    st.count("cases")
    if o.result in ("timeout", "abort"):
        o2, ok = drv.confirm(case, o)
        if not ok:
            st.inconc("watchdog_or_abort_not_reproduced")
            return
        o = o2
    st.count("conclusive")
    st.count("result_" + o.result)
    if o.result in ("panic", "timeout", "abort"):
        loc = o.panicinfo.split(" ")[0] if o.panicinfo else o.result
        loc = loc.replace("/repo/", "")
        st.violation("%s:%s" % (o.result, loc), "%s: %s  [%s]" % (o.result, o.panicinfo[:300], case.shell()[:600]),
                     unit, {"args": case.args, "input": unit["input"][:1500], "obs": o.brief()})
        st.see("panic_sites", loc)
        return
    if unit.get("matrix"):
        st.count("matrix_evaluations", len(unit["exprs"]))
        st.see("matrix_cells", (unit["funcs"][0], unit["exprs"][0][:40]))
    if unit["kind"] == "expr":
        st.see("nontrivial", (tuple(unit["funcs"][:6]), unit["pos"], unit["policy"], bool(unit.get("debug"))))
        for f in unit["funcs"]:
            st.see("functions_exercised", f)
        if o.result == "err":
            st.count("expr_config_rejected")
    else:
        st.see("nontrivial", hash(unit["input"]) & 0xFFFFFFFFFF)


def worker(ctx):
    st = ctx.stats
    ctx.debug_drv = core.Driver(ctx.params["debug_driver"], ctx.scratch + "-dbg") if ctx.params.get("debug_driver") else None
    try:
        n = ctx.params["units_per_worker"]
        for i in range(n):
            if ctx.expired():
                st.count("stopped_by_deadline")
                break
            r = ctx.rng.random()
            unit = gen_bytes_unit(ctx.rng) if r < 0.3 else gen_matrix_unit(ctx.rng) if r < 0.42 else gen_exec_unit(ctx.rng) if r < 0.425 else gen_deep_unit(ctx.rng) if r < 0.435 else gen_selfref_unit(ctx.rng) if r < 0.44 else gen_sortlist_unit(ctx.rng) if r < 0.45 else gen_arity_unit(ctx.rng) if r < 0.50 else gen_expr_unit(ctx.rng)
            if unit["kind"] == "expr" and ctx.debug_drv is not None and ctx.rng.random() < 0.35:
                unit["debug"] = True
            run_unit(ctx, unit)
            if i < 2 and ctx.idx == 0:
                st.sample({k: (v[:200].decode("latin-1") if isinstance(v, bytes) else v) for k, v in unit.items()})
    finally:
        if ctx.debug_drv is not None:
            st.count("driver_executions", ctx.debug_drv.executions)
            ctx.debug_drv.close()


def run_enum(env, stats, maxlen, shard=None):
    """Exhaustive byte-string enumeration inside the Rust driver."""
    cmd = [env.driver, "enum5", str(maxlen), str(core.NWORKERS), "-"]
    if shard is not None:
        cmd += [str(shard[0]), str(shard[1])]
    t = time.time()
    p = subprocess.run(cmd, stdout=subprocess.PIPE, stderr=subprocess.PIPE, timeout=7200)
    out = p.stdout.decode().splitlines()
    total = 0
    for ln in out:
        f = ln.split(" ")
        if f[0] == "total":
            total = int(f[1])
        elif f[0] == "count":
            stats.count("enum_" + f[1].replace("/", "_"), int(f[2]))
        elif f[0] == "panic":
            data = bytes.fromhex(f[2])
            info = bytes.fromhex(f[3]).decode("utf-8", "replace")
            loc = info.split(" ")[0].replace("/repo/", "")
            stats.violation("panic:" + loc, "panic on input bytes %r under --on-error=%s: %s" % (data, f[1], info[:200]),
                            {"kind": "bytes", "input": data, "policy": f[1], "args": []}, None)
        elif f[0] == "suspect-hang":
            data = bytes.fromhex(f[2])
            stats.violation("hang", "no return within 30 s on input bytes %r under --on-error=%s" % (data, f[1]),
                            {"kind": "bytes", "input": data, "policy": f[1], "args": []}, None)
    complete = p.returncode == 0 and any(l == "done" for l in out)
    stats.count("enum_executions", total)
    stats.count("driver_executions", total)
    stats.count("conclusive", total)
    stats.notes.append("enum5 maxlen=%d shard=%s: %d inputs in %.1fs, complete=%s" % (maxlen, shard, total, time.time() - t, complete))
    return total, complete


def run(env):
    quick = env.tier == "quick"
    try:
        debug_driver, _ = core.build_driver("debug")
    except core.BuildFailed:
        debug_driver = None
    params = {"units_per_worker": 2500 if quick else 120000, "debug_driver": debug_driver}
    stats = core.run_workers(__name__, "worker", PROP, env.tier, env.seed, env.driver, env.hooks_on,
                             40 if quick else 900, params)
    stats.merge(core.run_workers(__name__, "arity_worker", PROP, env.tier, env.seed, env.driver, env.hooks_on, 60 if quick else 600,
                                 {"arity_pool": ARITY_POOL_QUICK if quick else ARITY_POOL_THOROUGH, "arity_max": 3 if quick else 4}))
    if quick:
        n1, c1 = run_enum(env, stats, 4)
        n2, c2 = run_enum(env, stats, 5, shard=(env.seed % 8, 8))
        enumerated, complete = n1 + n2, c1
        exh = "all byte strings of length <= 4 over the 24-byte alphabet (complete: %s) plus shard %d/8 of length <= 5" % (c1, env.seed % 8)
    else:
        enumerated, complete = run_enum(env, stats, 6)
        exh = "all byte strings of length <= 6 over the 24-byte alphabet (complete: %s)" % complete
    extra = {"explanation": exh, "enumerated_byte_strings": enumerated, "panic_sites": sorted(stats.sets.get("panic_sites", []))}
    from . import c05_sanitizers
    extra["sanitizers"] = c05_sanitizers.run_all(env, stats, quick=quick)
    # distinct count: enumerated strings are distinct by construction
    code = core.finish(PROP, env.tier, env.seed, LEVEL, stats, env.t0, RULE, min_conclusive=20000 if quick else 10 ** 6,
                       exhaustive=complete, extra=extra, extra_distinct=enumerated,
                       assumptions=["a watchdog firing or a dead driver is believed only when the single case reproduces it alone in a fresh process (60 s)",
                                    "bounds of the property: nesting <= 64, range/collection sizes <= 10^4, decimal exponents <= 10^3; exec/trigger only with a fixed list of harmless commands; now never generated"])
    return code


def replay(env, unit):
    def ru(ctx, unit):
        ctx.debug_drv = None
        if unit.get("debug"):
            p, _ = core.build_driver("debug")
            ctx.debug_drv = core.Driver(p, ctx.scratch + "-dbg")
        try:
            run_unit(ctx, unit)
        finally:
            if ctx.debug_drv:
                ctx.debug_drv.close()
    return replay_unit(env, ru, unit)
