"""Sanitizer shards for C05 (thorough tier only) - filled in later in this session."""


def run_all(env, stats):
    return {"status": "not run in this build of the check"}
