"""Sanitizer shards for C05 (thorough tier; `./check C05 thorough`).

jawk has no `unsafe` and no threads, so these tools cannot see a defect of jawk's own code that the panic / abort boundary
does not see; they extend "never aborts" to "does not drive a dependency (regex, hashbrown/indexmap, bigdecimal, chrono,
base64, memchr, clap) into undefined behaviour on the inputs explored".  Each shard runs the *same* driver protocol
(`jdrive serve`) under a different execution engine and feeds it C05's own generated cases:

  valgrind memcheck  release driver under `valgrind --error-exitcode=97`; invalid read/write/uninitialised-use reports are
                     violations, leaks are not looked at.
  ASan               driver rebuilt with `cargo +nightly -Zsanitizer=address`; a report aborts the process
                     (halt_on_error=1) and is picked up from ASAN's log_path.
  Miri               `cargo +nightly miri run -- serve` (isolation disabled so that stdin/stdout/clock work; leak check off
                     because the driver keeps its panic-hook state alive); "Undefined Behavior" on stderr is a violation,
                     "unsupported operation" makes that shard inconclusive.

A tool that cannot be built or started here makes its shard inconclusive (reported in the evidence), never a violation.
"""
import glob
import os
import re
import shutil
import subprocess
import time

from .. import core
from . import c05

TOOLS = ("valgrind", "asan", "miri")


def _units(rng, n, small):
    out = []
    for _ in range(n):
        u = c05.gen_bytes_unit(rng) if rng.random() < 0.35 else c05.gen_expr_unit(rng)
        if small and len(u["input"]) > 300:
            u["input"] = u["input"][:300]
        out.append(u)
    return out


def _case(u):
    if u["kind"] == "bytes":
        return core.Case(["--on-error", u["policy"]] + u["args"], u["input"])
    return core.Case(c05.expr_args(u), u["input"])


def build_asan():
    drv = os.path.join(core.ROOT, "driver")
    tdir = os.path.join(core.TARGET, "asan")
    env = {"RUSTFLAGS": "-Zsanitizer=address -Cforce-frame-pointers=yes"}
    r = core._cargo(["+nightly", "build", "--offline", "--release", "--target", "x86_64-unknown-linux-gnu", "--target-dir", tdir,
                     "--features", "hooks"], drv, env)
    if r.returncode != 0:
        return None, r.stdout.decode("utf-8", "replace")[-1500:]
    return os.path.join(tdir, "x86_64-unknown-linux-gnu", "release", "jdrive"), ""


def build_miri():
    """Compile the driver for Miri once (the interpreter run itself happens per worker)."""
    drv = os.path.join(core.ROOT, "driver")
    tdir = os.path.join(core.TARGET, "miri")
    env = {"MIRIFLAGS": "-Zmiri-disable-isolation -Zmiri-ignore-leaks"}
    # `miri run` with an empty stdin: serve() returns at once, everything is compiled as a side effect
    try:
        r = subprocess.run(["cargo", "+nightly", "miri", "run", "--offline", "--features", "hooks", "--target-dir", tdir, "--", "serve"],
                           cwd=drv, env=dict(os.environ, CARGO_NET_OFFLINE="true", **env), stdin=subprocess.DEVNULL,
                           stdout=subprocess.PIPE, stderr=subprocess.STDOUT, timeout=1500)
    except subprocess.TimeoutExpired:
        return False, "miri build timed out"
    return r.returncode == 0, r.stdout.decode("utf-8", "replace")[-1500:]


def worker(ctx):
    st = ctx.stats
    tool = ctx.params["tool"]
    n = ctx.params["units_per_worker"]
    logdir = os.path.join(ctx.scratch + "-" + tool)
    os.makedirs(logdir, exist_ok=True)
    errlog = os.path.join(logdir, "stderr.log")
    if tool == "valgrind":
        drv = core.Driver(ctx.params["release"], ctx.scratch,
                          wrapper=["valgrind", "--quiet", "--error-exitcode=97", "--leak-check=no", "--num-callers=20",
                                   "--log-file=" + os.path.join(logdir, "vg.%p.log")], stderr_path=errlog)
    elif tool == "asan":
        env = dict(os.environ)
        env["ASAN_OPTIONS"] = "halt_on_error=1:abort_on_error=1:detect_leaks=0:log_path=" + os.path.join(logdir, "asan")
        drv = core.Driver(ctx.params["asan"], ctx.scratch, env=env, stderr_path=errlog)
    else:
        env = dict(os.environ, CARGO_NET_OFFLINE="true", MIRIFLAGS="-Zmiri-disable-isolation -Zmiri-ignore-leaks")
        drv = core.Driver(None, ctx.scratch, env=env, cwd=os.path.join(core.ROOT, "driver"), stderr_path=errlog,
                          cmd=["cargo", "+nightly", "miri", "run", "--offline", "--features", "hooks", "--target-dir",
                               os.path.join(core.TARGET, "miri"), "--", "serve"])
    units = _units(ctx.rng, n, small=(tool == "miri"))
    done = 0
    try:
        for u in units:
            if ctx.expired():
                st.count(tool + "_stopped_by_deadline")
                break
            c = _case(u)
            c.watchdog_ms = 300000 if tool == "miri" else 60000
            o = drv.run(c)
            done += 1
            st.count(tool + "_executions")
            st.count(tool + "_result_" + o.result)
            if o.result == "panic":
                loc = o.panicinfo.split(" ")[0].replace("/repo/", "")
                st.violation("panic:%s" % loc, "panic under %s: %s" % (tool, o.panicinfo[:300]), u, {"args": c.args, "input": u["input"][:800]})
            elif o.result in ("abort", "timeout"):
                # decided below from the tool's own report; without a report it is inconclusive (slow engine, not a hang verdict)
                st.count(tool + "_driver_died_or_slow")
                st.sets.setdefault(tool + "_suspects", set()).add(repr((c.args, u["input"][:200])))
            if done <= 1 and ctx.idx == 0:
                st.sample({"tool": tool, "args": [a if isinstance(a, str) else a.decode("latin-1") for a in c.args][:8],
                           "input": u["input"][:120].decode("latin-1")})
    finally:
        drv.close()
    # collect reports
    reports = []
    if tool == "valgrind":
        for f in glob.glob(os.path.join(logdir, "vg.*.log")):
            txt = open(f, errors="replace").read()
            for blk in re.split(r"\n==\d+== \n", txt):
                if re.search(r"Invalid (read|write|free)|uninitialised|Mismatched free|Source and destination overlap|Jump to the invalid", blk):
                    reports.append(blk[:1500])
    elif tool == "asan":
        for f in glob.glob(os.path.join(logdir, "asan*")):
            txt = open(f, errors="replace").read()
            if "ERROR: AddressSanitizer" in txt:
                reports.append(txt[:2500])
    else:
        txt = open(errlog, errors="replace").read() if os.path.exists(errlog) else ""
        if "Undefined Behavior" in txt:
            i = txt.index("Undefined Behavior")
            reports.append(txt[max(0, i - 200):i + 2000])
        elif "unsupported operation" in txt:
            st.inconc("miri_unsupported_operation")
            st.notes.append("miri: " + txt[txt.index("unsupported operation") - 100:][:600].replace("\n", " | "))
    for rp in reports:
        first = [l for l in rp.splitlines() if ("at " in l or "#" in l) and ("jawk" in l or "src/" in l)]
        sig = "%s-report:%s" % (tool, re.sub(r"0x[0-9a-fA-F]+|\d+", "N", (first[0] if first else rp.splitlines()[0]))[:100])
        st.violation(sig, "%s reported a memory error" % tool, {"kind": "sanitizer", "tool": tool}, {"report": rp})
    st.count(tool + "_reports", len(reports))
    shutil.rmtree(logdir, ignore_errors=True)


def run_all(env, stats, budget_s=None, quick=False):
    """Run the three shards; merges counters and violations into `stats`, returns a summary for the evidence.

    quick=True (the quick tier): the valgrind shard only, a few hundred cases - the engine that needs no second build."""
    summary = {}
    release = env.driver
    plan = []
    if shutil.which("valgrind"):
        plan.append(("valgrind", {"release": release, "units_per_worker": 24 if quick else 300}, 75 if quick else 900))
    else:
        summary["valgrind"] = "not installed"
    if quick:
        return _run_plan(env, stats, plan, summary, budget_s)
    asan, msg = build_asan()
    if asan:
        plan.append(("asan", {"asan": asan, "units_per_worker": 12000}, 900))
    else:
        summary["asan"] = "inconclusive: build failed: " + msg[-300:]
        stats.inconc("asan_build_failed")
    ok, msg = build_miri()
    if ok:
        plan.append(("miri", {"units_per_worker": 25}, 1500))
    else:
        summary["miri"] = "inconclusive: build failed: " + msg[-300:]
        stats.inconc("miri_build_failed")
    return _run_plan(env, stats, plan, summary, budget_s)


def _run_plan(env, stats, plan, summary, budget_s=None):
    release = env.driver
    for tool, params, budget in plan:
        params["tool"] = tool
        t = time.time()
        st = core.run_workers(__name__, "worker", "C05", env.tier, env.seed, release, env.hooks_on, budget_s or budget, params)
        # driver_executions of the shards are counted separately from the main workload
        for k in ("driver_executions", "driver_restarts", "isolated_reruns"):
            st.counters.pop(k, None)
        stats.merge(st)
        summary[tool] = {"executions": st.counters.get(tool + "_executions", 0), "reports": st.counters.get(tool + "_reports", 0),
                         "died_or_slow": st.counters.get(tool + "_driver_died_or_slow", 0), "wall_s": round(time.time() - t, 1)}
    return summary
