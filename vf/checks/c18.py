"""C18 Invalid configurations are rejected before any input is read or output written.

Boundary oracle: for a configuration made invalid by exactly one corruption, jawk::go (or the clap parser in front of it) must
return an error, stdout must stay empty, the stdin factory must never be called and a FIFO given as input file must never be opened.
"""
import json
import os

from .. import core
from ..main import replay_unit

PROP = "C18"
LEVEL = "exploration"
RULE = ("valid generated configurations (options --set/--split-by/--filter/--select x0-3/--sort-by x0-2/--group-by, 3 output styles) corrupted by "
        "exactly one operator (dropped/extra parenthesis, unterminated string, unknown function, arity -1/+1 for every bounded-arity function, "
        "trailing garbage, bad sort direction, malformed/duplicate --set, empty expression, style/option conflicts, csv without selection / with "
        "grouping) in every option position, with a non-empty input via stdin or a FIFO; distinct_nontrivial = distinct (operator, option position, "
        "output style, transport) cells")

TABLE = json.load(open(os.path.join(os.path.dirname(os.path.dirname(__file__)), "function_table.json")))
BOUNDED = [f for f in TABLE if f["name"] not in ("exec", "trigger", "now")]

EXPRS = ['.a', '(len .arr)', '(= .k "a")', '(concat "x" .s)', '(? (string? .g) .g "none")', '(map .arr (+ . 1))', '(get . "k")',
         '(take .arr 2)', '(and true (number? .s))', '(| .arr (len .))', '"lit"', '12', '[1, 2]', '{"a": 1}', '(.len)', '(len , .arr )',
         '(default .x .y 1)', '.a.b#1', '^.a', '(sort_by .arr (- .))']
POSITIONS = ["select", "select2", "filter", "split", "group", "sort", "set-var", "set-macro"]
INPUT = b'{"a":{"b":[1,2]},"k":"a","s":"t","g":"x","arr":[3,1,2]}\n{"a":1,"arr":[]}\n7 "str" [1]\n'


def fname_call(f, nargs):
    name = f["name"]
    return "(" + name + "".join(" 1" for _ in range(nargs)) + ")"


def corrupt(rng, expr, pos):
    """Returns (operator, corrupted text) or None if the operator does not apply to expr."""
    ops = ["drop-close", "extra-open", "unterminated-string", "unknown-function", "arity-minus", "arity-plus", "trailing-garbage",
           "trailing-paren", "empty", "truncate", "unterminated-name-ref", "index-overflow", "unknown-input-context", "nameless-reference", "malformed-literal", "dangling-index"]
    if pos == "filter":
        ops += ["filter-with-name", "filter-with-name"]
    if pos == "sort":
        ops += ["bad-direction", "bad-direction-eq", "glued-direction"]
    op = rng.choice(ops)
    if op == "drop-close":
        if not expr.endswith(")"):
            return None
        return op, expr[:-1]
    if op == "extra-open":
        if "(" not in expr:
            return None
        return op, "(" + expr
    if op == "unterminated-string":
        i = expr.rfind('"')
        if i < 0:
            return None
        return op, expr[:i] + expr[i + 1:].replace('"', "")
    if op == "unterminated-name-ref":
        # /name/ without its closing slash, at the very end of the option value
        return op, rng.choice(["/c0", "/c", "/sel", "/a b"])
    if op == "malformed-literal":
        # literals in an expression are JSON: near-JSON is not
        lit = rng.choice(['"\\u+041"', '"\\u-041"', '"\\u 041"', "[1, 2,]", '{"k": 1,}', "[,1]", "[1,,2]", '{"k" 1}', "[1 2]", '{"a":1,"a"}', '"\\x41"', "+1", "tru", "nul",
                          "[1,]", "{,}", "True", "NULL", "'a'", "[1;2]", '{"a":1;}', "{a:1}", '"\\ud800"', "1e", "--1", "0x10", "1_000", "nan", "Infinity",
                          '"\\u12"', '{"k":}', "[1,2", '{"a":1', '"\\"'])
        return op, rng.choice(["(default .zz %s)", "(push [] %s)", "%s", "(? true 1 %s)"]) % lit
    if op == "nameless-reference":
        # `:` / `@` without a name, in front of a separator rather than at the very end of the text
        return op, rng.choice(["(= : 1)", "(default : \"x\")", "(default @ .a)", "(len @)", "(+ 1 :)", "(? true : 1)", "(default .a @ )", "(concat :\t\"x\")",
                               "(push [] :, 1)", "(| . :)", "(map .arr (+ . @))"])
    if op == "filter-with-name":
        # --filter takes a bare selection: there is no `=name` part
        return op, expr + rng.choice(["=true", "=x", " = yes", " =", "=", "= yes )) junk", "=c0", "\t=\tname"])
    if op == "unknown-input-context":
        # the documented & names, with a separator added, doubled, moved or dropped, a letter missing or added
        t = rng.choice(["&in-dex", "&index-", "&-index", "&file--name", "&filename", "&indexin-file", "&index_", "&inde", "&indexx", "&", "&index-in", "&file",
                        "&started-at-line", "&startedatlinenumber", "&ended-at-char-number-", "&index-in-file-name", "&file_name_", "&INDEX-"])
        return op, rng.choice([t, "(+ 1 %s)" % t, "(default .a %s)" % t])
    if op == "dangling-index":
        # `#` introduces an array index: behind a path element it needs its digits (a truncation right behind the `#`)
        t = rng.choice([".arr#", ".a#.b", ".a.b#", ".arr#x", ".obj.a#", ".arr#-1", ".arr# 1"])
        return op, rng.choice([t, "(len %s)" % t, "(= %s 1)" % t, "(default %s .a)" % t, "(map .arr (+ . %s))" % t])
    if op == "index-overflow":
        return op, rng.choice([".arr#18446744073709551616", ".a#99999999999999999999999", "#18446744073709551616", "(len .arr#340282366920938463463374607431768211456)"])
    if op == "unknown-function":
        return op, rng.choice(["(nosuchfn .)", "(lenn .arr)", "(Len .arr)", "(map2 .arr .)", "(. .)", "(1 2)", "(..len .arr)", "(...len)", "(..array? .)",
                               "(len. .arr)", "(.len. .arr)", "(l en .arr)", "(len\u00e9 .arr)", "(LEN .arr)", "(-len .arr)", "(_ .)", "(.. .)",
                               "(map .arr (..len .))", "(? true (..size .arr) 0)"])
    if op == "arity-minus":
        f = rng.choice([f for f in BOUNDED if f["min"] >= 1])
        return op + ":" + f["name"], fname_call(f, f["min"] - 1)
    if op == "arity-plus":
        f = rng.choice([f for f in BOUNDED if f["max"] is not None])
        return op + ":" + f["name"], fname_call(f, f["max"] + 1)
    if op == "trailing-garbage":
        if pos in ("select", "select2"):
            return op, expr + " garbage"
        g = rng.choice([" garbage", " 1", " .x", " (len .)", " ]", " }"])
        if pos == "sort":
            g = rng.choice([" garbage", " DESC garbage", " ASC DESC", " 1", "=DESC x"])
        return op, expr + g
    if op == "trailing-paren":
        if not expr.endswith(")"):
            return None
        return op, expr + rng.choice([")", "))", " )"])
    if op == "empty":
        return op, rng.choice(["", " ", "   "])
    if op == "truncate":
        if not expr.startswith("(") or len(expr) < 6:
            return None
        k = rng.randint(2, len(expr) - 2)
        t = expr[:k]
        # only keep truncations that leave the outer call open
        depth = 0
        instr = False
        for ch in t:
            if ch == '"':
                instr = not instr
            elif not instr and ch == "(":
                depth += 1
            elif not instr and ch == ")":
                depth -= 1
        if depth <= 0 and not instr:
            return None
        return op, t
    if op == "bad-direction":
        return op, expr + " " + rng.choice(["SIDEWAYS", "UP", "DESCENDING", "D", "asc desc", "de\u017fc", "a\u017fc", "DE\u017fC", "de\u0455c", "\uff24\uff25\uff33\uff23"])
    if op == "bad-direction-eq":
        return op, expr + "=" + rng.choice(["SIDEWAYS", "UP", "DES", "de\u017fc", "A\u017fC"])
    if op == "glued-direction":
        if not expr.endswith(")"):
            return None
        return op, expr + rng.choice(["xDESC", ")DESC", "1ASC", "]"])
    return None


def valid_config(rng):
    parts = {}
    nsel = rng.choice((0, 1, 2, 3))
    parts["selects"] = ["%s=c%d" % (rng.choice(EXPRS), i) for i in range(nsel)]
    parts["filter"] = rng.choice(EXPRS) if rng.random() < 0.5 else None
    parts["split"] = rng.choice(EXPRS) if rng.random() < 0.3 else None
    parts["group"] = rng.choice(EXPRS) if rng.random() < 0.3 else None
    parts["sorts"] = [rng.choice(EXPRS) + rng.choice(["", " DESC", "=ASC", " asc"]) for _ in range(rng.choice((0, 0, 1, 2)))]
    parts["sets"] = []
    if rng.random() < 0.4:
        parts["sets"].append("v1=" + rng.choice(['1', '"s"', '[1]', '(+ 1 2)']))
    if rng.random() < 0.3:
        parts["sets"].append("@m1=" + rng.choice(EXPRS))
    style = rng.choice(["json", "json", "csv", "text"])
    if style == "csv":
        parts["group"] = None
        if not parts["selects"]:
            parts["selects"] = [".a=c0"]
    parts["style"] = style
    parts["extra"] = []
    # limits are part of ordinary configurations (also the extreme --take 0: nothing will be printed, yet the configuration
    # is validated like any other)
    parts["limits"] = []
    if rng.random() < 0.3:
        parts["limits"] += ["--take", str(rng.choice((0, 0, 1, 5)))]
    if rng.random() < 0.2:
        parts["limits"] += ["--skip", str(rng.choice((0, 1, 3)))]
    if rng.random() < 0.15:
        parts["limits"] += ["--unique"]
    if style == "json" and rng.random() < 0.5:
        parts["extra"] = rng.choice([["--style", "pretty"], ["--utf8-strings"], ["--style", "consise"]])
    if style == "text" and rng.random() < 0.5:
        parts["extra"] = rng.choice([["--items-seperator", "|"], ["--null-keyword", "NULL"], ["--string-prefix", "<"]])
    return parts


def to_args(parts):
    a = ["-o", parts["style"]] + list(parts["extra"]) + list(parts.get("limits", []))
    for s in parts["sets"]:
        a += ["--set", s]
    if parts["split"] is not None:
        a += ["--split-by=" + parts["split"]]
    if parts["filter"] is not None:
        a += ["--filter=" + parts["filter"]]
    for s in parts["selects"]:
        a += ["--select=" + s]
    for s in parts["sorts"]:
        a += ["--sort-by=" + s]
    if parts["group"] is not None:
        a += ["--group-by=" + parts["group"]]
    return a


def gen_unit(rng):
    for _ in range(200):
        parts = valid_config(rng)
        kind = rng.random()
        if kind < 0.75:
            pos = rng.choice(POSITIONS)
            expr = rng.choice(EXPRS)
            c = corrupt(rng, expr, pos)
            if c is None:
                continue
            op, bad = c
            if pos == "select":
                parts["selects"] = parts["selects"] + [bad if op.startswith("trailing-garbage") else bad + "=bad"]
            elif pos == "select2":
                parts["selects"] = [bad if op.startswith("trailing-garbage") else bad + "=bad"] + parts["selects"]
            elif pos == "filter":
                parts["filter"] = bad
            elif pos == "split":
                parts["split"] = bad
            elif pos == "group":
                if parts["style"] == "csv":
                    continue
                parts["group"] = bad
            elif pos == "sort":
                parts["sorts"] = parts["sorts"] + [bad]
            elif pos == "set-var":
                if op in ("unknown-function",) or op.startswith("arity"):
                    pass
                parts["sets"] = parts["sets"] + ["bad=" + bad]
            else:
                parts["sets"] = parts["sets"] + ["@bad=" + bad]
        elif kind < 0.87:
            pos = "set"
            op, bad = rng.choice([("set-no-equals", "novalue"), ("set-empty-name", "=1"), ("set-empty-macro-name", "@=1"),
                                  ("set-empty-name", rng.choice([" =1", "\t=\"v\"", "  = 1", " =.a"])), ("set-empty-macro-name", rng.choice([" @=(len .)", "@ =.a", " @ = 1", "@\t=1"])),
                                  ("set-empty-value", "x="), ("set-duplicate", None), ("set-duplicate-macro", None),
                                  ("set-value-nothing", "x=.a")])
            if op in ("set-duplicate", "set-duplicate-macro"):
                # the two definitions of one name at random positions among the other --set options (adjacent or not)
                first, second = ("d=1", "d=2") if op == "set-duplicate" else ("@d=1", "@d=.a")
                if rng.random() < 0.3:
                    # the same name written with blanks around it is still the same name
                    second = rng.choice((" ", "")) + second.replace("=", rng.choice((" =", "  =", " =")), 1)
                sets = list(parts["sets"]) + ["fill%d=%d" % (i, i) for i in range(rng.choice((0, 0, 1, 2, 3)))]
                if rng.random() < 0.3:
                    sets.append("@d=.b" if op == "set-duplicate" else "d=7")     # same name in the other namespace: legal
                rng.shuffle(sets)
                i = rng.randrange(len(sets) + 1)
                sets.insert(i, first)
                j = rng.randrange(len(sets) + 1)
                sets.insert(j, second)
                parts["sets"] = sets
                op = op + (":adjacent" if abs(sets.index(first) - sets.index(second)) == 1 else ":apart")
            else:
                parts["sets"] = parts["sets"] + [bad]
        else:
            pos = "style"
            op = rng.choice(["csv-json-option", "csv-text-option", "csv-json-and-text-option", "json-text-option", "text-json-option", "csv-no-select", "csv-group",
                             "csv-merge", "unknown-style", "unknown-on-error", "text-headers-no-select"])
            parts["extra"] = []
            if op == "csv-json-option":
                parts.update(style="csv", group=None, selects=[".a=c0"], extra=rng.choice([["--style", "pretty"], ["--utf8-strings"]]))
            elif op == "csv-text-option":
                parts.update(style="csv", group=None, selects=[".a=c0"], extra=rng.choice([["--headers"], ["--items-seperator", ";"], ["--null-keyword", "x"]]))
            elif op == "csv-json-and-text-option":
                j, t = rng.choice([["--style", "pretty"], ["--utf8-strings"]]), rng.choice([["--headers"], ["--items-seperator", ";"], ["--null-keyword", "x"]])
                ex = j + t if rng.random() < 0.5 else t + j
                parts.update(style="csv", group=None, selects=[".a=c0"], extra=ex)
            elif op == "json-text-option":
                parts.update(style="json", extra=rng.choice([["--headers"], ["--items-seperator", ";"], ["--missing-value-keyword", "x"], ["--escape-sequance", "\"q"]]))
            elif op == "text-json-option":
                parts.update(style="text", extra=rng.choice([["--style", "pretty"], ["--utf8-strings"]]))
            elif op == "csv-no-select":
                parts.update(style="csv", group=None, selects=[])
            elif op == "csv-group":
                parts.update(style="csv", group=".g", selects=[".a=c0"])
            elif op == "csv-merge":
                parts.update(style="csv", group=None, selects=[".a=c0"], extra=["--merge"])
            elif op == "unknown-style":
                parts.update(style="yaml")
            elif op == "unknown-on-error":
                parts["extra"] = ["--on-error", "explode"]
            else:
                parts.update(style="text", selects=[], extra=["--headers"])
        return {"op": op, "pos": pos, "args": to_args(parts), "style": parts["style"], "transport": rng.choice(["stdin", "stdin", "fifo"])}
    raise RuntimeError("no corruption applied")


def run_unit(ctx, unit):
    st = ctx.stats
    if unit["transport"] == "stdin":
        case = core.Case(unit["args"], INPUT, watchdog_ms=20000)
    else:
        case = core.Case(unit["args"] + ["@D@/input.fifo"], b"", fifos=["input.fifo"], watchdog_ms=20000)
    o = ctx.drv.run(case)
    if o.result in ("timeout", "abort"):
        o, ok = ctx.drv.confirm(case, o)
        if not ok:
            st.inconc("watchdog_not_reproduced")
            return
    st.count("conclusive")

    def bad(sig, msg):
        st.violation(sig + ":" + unit["op"].split(":")[0] + ":" + unit["pos"], "%s (operator %s in %s): %s" % (msg, unit["op"], unit["pos"], unit["args"]),
                     unit, {"obs": o.brief(), "factory_calls": o.factory_calls, "fifo": o.fifo})
    if o.result == "ok":
        bad("accepted", "an invalid configuration was accepted and the run succeeded")
        return
    if o.result not in ("err", "clierr"):
        bad("result:" + o.result, "invalid configuration: %s %s" % (o.result, o.panicinfo))
        return
    if o.stdout:
        bad("output-before-rejection", "%d bytes were written to stdout before the configuration was rejected" % len(o.stdout))
        return
    if o.factory_calls or o.read_calls:
        bad("input-read-before-rejection", "standard input was requested before the configuration was rejected")
        return
    if unit["transport"] == "fifo" and any(o.fifo):
        bad("file-opened-before-rejection", "the input file was opened before the configuration was rejected")
        return
    st.see("nontrivial", (unit["op"].split(":")[0], unit["pos"], unit["style"], unit["transport"]))
    st.see("operators", unit["op"])
    st.count("rejected_by_clap" if o.result == "clierr" else "rejected_by_jawk")


def worker(ctx):
    st = ctx.stats
    # the valid configurations themselves must be accepted (otherwise the corruptions prove nothing)
    for i in range(ctx.params["valid_per_worker"]):
        parts = valid_config(ctx.rng)
        o = ctx.drv.run(core.Case(to_args(parts), INPUT))
        st.count("valid_configs_run")
        if o.result != "ok":
            st.count("valid_config_rejected")
            st.inconc("valid_config_rejected")
            st.notes.append("valid configuration rejected: %s -> %s %s" % (to_args(parts), o.result, o.errtext))
    for i in range(ctx.params["units_per_worker"]):
        if ctx.expired():
            st.count("stopped_by_deadline")
            break
        unit = gen_unit(ctx.rng)
        run_unit(ctx, unit)
        st.count("units")
        if i < 2 and ctx.idx < 2:
            st.sample({"op": unit["op"], "pos": unit["pos"], "args": unit["args"]})


def run(env):
    quick = env.tier == "quick"
    stats = core.run_workers(__name__, "worker", PROP, env.tier, env.seed, env.driver, env.hooks_on,
                             45 if quick else 400, {"units_per_worker": 5000 if quick else 25000, "valid_per_worker": 300 if quick else 1000})
    return core.finish(PROP, env.tier, env.seed, LEVEL, stats, env.t0, RULE, min_conclusive=2000 if quick else 20000,
                       assumptions=["each corruption is invalid by the documented grammar (function table pinned in vf/function_table.json)",
                                    "rejection by the clap front end counts as rejected before anything was read or written",
                                    "a FIFO that was never opened for reading proves the input file was not opened"])


def replay(env, unit):
    return replay_unit(env, run_unit, unit)
