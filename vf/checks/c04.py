"""C04 Expressions evaluate to what the function documentation prescribes.

Reference-model oracle: a Python evaluator written from the add_description_line/add_example texts (SEMANTICS.md),
validated at run time against every inline example scraped from the tree under test, is applied to the same AST
that is printed into --select options of a real run; each column of each row must be the model's value or absent
exactly when the model says nothing.  Cases the model calls UNSPECIFIED are not compared.
"""
import math
import os

from .. import core, exprgen as eg, exprmodel as em, jsonmodel as jm
from ..main import replay_unit

PROP = "C04"
LEVEL = "exploration"
RULE = ("type-directed generator over the 108 pure functions (every function targeted in turn, all aliases via spelling variants, literals, "
        "extractors .k #i ^, :var, @macro via set/define/--set, /name/ of earlier selects), depth <= 4 plus nesting by pipes, ~8 % ill-typed "
        "arguments, evaluated on records and arbitrary JSON inputs (empty/singleton collections, non-ASCII strings, boundary N); one run carries "
        "up to 8 selections x up to 12 inputs. distinct_nontrivial = distinct (function, argument type vector, result kind) cells among "
        "evaluations the reference calls specified")

UNSPEC = object()


def gen_unit(rng, target=None):
    g = eg.Gen(rng, ill_typed=0.08, maxdepth=rng.choice((2, 3, 4)), nonascii=0.2, big_n=0.05)
    sc = eg.Scope()
    pre = []
    vars_ = {}
    macros = {}
    if rng.random() < 0.3:
        v = g.lit(rng.choice(("num", "str", "arr:num", "obj")))
        vars_["gv"] = v[1]
        pre += ["--set", "gv=" + eg.show(v)]
        sc = sc.with_var("gv", "any")
    if rng.random() < 0.25:
        m = g.gen(rng.choice(("num", "str", "bool", "arr:num")), eg.Scope().macro_body())
        macros["gm"] = m
        pre += ["--set", "@gm=" + eg.show(m)]
        sc = sc.with_macro("gm", "any")
    exprs = []
    cur = sc
    n = rng.choice((1, 3, 5, 8))
    for i in range(n):
        kind = rng.choice(eg.KINDS)
        e = None
        if target and i == 0:
            for _ in range(40):
                e = g.gen(kind, cur)
                if target in eg.functions_in(e):
                    break
                kind = rng.choice(eg.KINDS)
        if e is None:
            e = g.gen(kind, cur)
        exprs.append(e)
        cur = eg.Scope(cur.dot, cur.parents, cur.vars, cur.macros, dict(cur.sels, **{"c%d" % i: "any"}), True)
    inputs = [eg.gen_input(rng) for _ in range(rng.choice((1, 4, 12)))]
    variants = rng.random() < 0.3
    return {"pre": pre, "exprs": exprs, "texts": [eg.show(e, rng, variants) for e in exprs], "inputs": inputs, "vars": vars_, "macros": macros}


def cell(ast, c, result):
    """(function, argument type vector, result kind) of the top call."""
    if ast[0] != "call":
        return None
    kinds = []
    for a in ast[2][:3]:
        try:
            v = em.ev(a, c)
        except em.Unspecified:
            kinds.append("?")
            continue
        except RecursionError:
            kinds.append("?")
            continue
        kinds.append(kind_of(v))
    return (ast[1], tuple(kinds), kind_of(result))


def kind_of(v):
    if v is em.NOTHING:
        return "nothing"
    if isinstance(v, em.Stringified):
        return "string"
    if isinstance(v, em.NasVal):
        return "string"
    return jm.classify(v)


def has_nonfinite(v):
    if isinstance(v, float):
        return v != v or abs(v) == math.inf
    if isinstance(v, list):
        return any(has_nonfinite(x) for x in v)
    if isinstance(v, dict):
        return any(has_nonfinite(x) for x in v.values())
    if isinstance(v, em.Stringified):
        return has_nonfinite(v.value)
    return False


def run_unit(ctx, unit):
    st = ctx.stats
    args = list(unit["pre"])
    for i, t in enumerate(unit["texts"]):
        args.append("--select=%s=c%d" % (t, i))
    data = "\n".join(jm.dumps(v) for v in unit["inputs"]).encode("utf-8")
    case = core.Case(args, data)
    o = ctx.drv.run(case)
    if o.result != "ok":
        if o.result in ("timeout", "abort"):
            st.inconc("watchdog")
        elif o.result == "panic":
            st.count("skipped_panic_is_C05")
        else:
            st.violation("generated-expression-rejected", "a generated expression was rejected: %s" % o.errtext[:200], unit_json(unit), {"args": args})
        return
    # the model
    expected = []
    nonfinite = False
    for v in unit["inputs"]:
        v = em.normalise(v)
        sels = {}
        row = []
        for i, e in enumerate(unit["exprs"]):
            c = em.Ctx(v, (), {k: em.normalise(x) for k, x in unit["vars"].items()}, unit["macros"], dict(sels), core.FIXED_ENV)
            try:
                val = em.ev(e, c)
                em.to_plain(val)
            except em.Unspecified as ex:
                val = UNSPEC
                st.count("unspecified")
                st.see("unspecified_reasons", str(ex)[:60])
            except RecursionError:
                val = UNSPEC
            if val is not UNSPEC and has_nonfinite(val):
                nonfinite = True
            row.append((val, c))
            if val is UNSPEC:
                sels["c%d" % i] = em.UNSPEC_VALUE
            elif val is not em.NOTHING:
                sels["c%d" % i] = val
        expected.append(row)
    try:
        rows = [jm.plain(r) for r in jm.read_rows(o.stdout)]
    except jm.JsonError as e:
        if nonfinite:
            st.count("skipped_nonfinite_output_is_C02")
            return
        st.violation("unreadable-output", "stdout is not JSON rows: %s" % e, unit_json(unit), {"stdout": o.stdout[:600]})
        return
    if len(rows) != len(expected):
        st.violation("row-count", "%d inputs, %d rows" % (len(expected), len(rows)), unit_json(unit), None)
        return
    st.count("conclusive")
    for ri, (row, exp) in enumerate(zip(rows, expected)):
        for i, (val, c) in enumerate(exp):
            name = "c%d" % i
            if val is UNSPEC:
                continue
            st.count("evaluations_specified")
            got = row.get(name, em.NOTHING) if isinstance(row, dict) else em.NOTHING
            try:
                if val is em.NOTHING:
                    good = got is em.NOTHING
                else:
                    good = got is not em.NOTHING and em.matches(val, got)
            except em.Unspecified:
                st.count("unspecified")
                continue
            if not good:
                top = unit["exprs"][i]
                fname = top[1] if top[0] == "call" else top[0]
                culprit = shrink(ctx, unit, i, ri)
                st.violation("value-mismatch:" + culprit["function"], "column %d of row %d: documentation prescribes %s, jawk gave %s  [%s]" % (
                    i, ri, jm.dumps(em.to_plain(val))[:200], "<nothing>" if got is em.NOTHING else jm.dumps(got)[:200], culprit["text"][:300]),
                    unit_json(unit), {"expression": unit["texts"][i], "input": unit["inputs"][ri], "expected": em.to_plain(val),
                                      "got": "<nothing>" if got is em.NOTHING else got, "smallest_disagreeing_subexpression": culprit})
                return
            ce = cell(unit["exprs"][i], c, val)
            if ce:
                st.see("nontrivial", ce)
            for f in eg.functions_in(unit["exprs"][i]):
                st.see("functions_with_specified_evaluations", f)


class _Raise:
    pass


def shrink(ctx, unit, i, ri):
    """Find the smallest sub-expression (evaluated on the same top-level input, context permitting) that still disagrees."""
    v = em.normalise(unit["inputs"][ri])
    best = {"function": unit["exprs"][i][1] if unit["exprs"][i][0] == "call" else unit["exprs"][i][0], "text": unit["texts"][i]}
    cands = []
    for node in eg.walk(unit["exprs"][i]):
        if node[0] == "call" and not any(n[0] == "path" and n[1] > 0 for n in eg.walk(node)) and not any(n[0] in ("sel",) for n in eg.walk(node)):
            cands.append(node)
    cands.sort(key=lambda n: len(eg.show(n)))
    for node in cands[:25]:
        c = em.Ctx(v, (), unit["vars"], unit["macros"], {}, core.FIXED_ENV)
        try:
            val = em.ev(node, c)
        except (em.Unspecified, RecursionError):
            continue
        text = eg.show(node)
        o = ctx.drv.run(core.Case(list(unit["pre"]) + ["--select=%s=x" % text], jm.dumps(v).encode()))
        if o.result != "ok":
            continue
        try:
            rows = [jm.plain(r) for r in jm.read_rows(o.stdout)]
        except jm.JsonError:
            continue
        got = rows[0].get("x", em.NOTHING) if rows and isinstance(rows[0], dict) else em.NOTHING
        try:
            good = (got is em.NOTHING) if val is em.NOTHING else (got is not em.NOTHING and em.matches(val, got))
        except em.Unspecified:
            continue
        if not good:
            return {"function": node[1], "text": text, "input": v, "expected": em.to_plain(val), "got": "<nothing>" if got is em.NOTHING else got}
    return best


def unit_json(unit):
    return {"pre": unit["pre"], "texts": unit["texts"], "inputs": unit["inputs"], "vars": unit["vars"],
            "exprs": [to_list(e) for e in unit["exprs"]], "macros": {k: to_list(v) for k, v in unit["macros"].items()}}


def to_list(ast):
    if ast[0] == "call":
        return ["call", ast[1], [to_list(a) for a in ast[2]]]
    if ast[0] == "path":
        return ["path", ast[1], [list(s) for s in ast[2]]]
    if ast[0] == "lit":
        return ["lit", ast[1]]
    return list(ast)


def from_list(l):
    if l[0] == "call":
        return ("call", l[1], tuple(from_list(a) for a in l[2]))
    if l[0] == "path":
        return ("path", l[1], tuple(tuple(s) for s in l[2]))
    if l[0] == "lit":
        return ("lit", l[1])
    return tuple(l)


def worker(ctx):
    st = ctx.stats
    n = ctx.params["units_per_worker"]
    targets = [f for f in eg.PURE]
    for i in range(n):
        if ctx.expired():
            st.count("stopped_by_deadline")
            break
        target = targets[(i * ctx.nworkers + ctx.idx) % len(targets)] if ctx.rng.random() < 0.7 else None
        unit = gen_unit(ctx.rng, target)
        run_unit(ctx, unit)
        st.count("units")
        if i < 2 and ctx.idx == 0:
            st.sample({"select": unit["texts"][:2], "input": unit["inputs"][0]})


def validate_examples(stats):
    """Re-validate the reference evaluator against the inline examples of the tree under test."""
    import importlib.util
    spec = importlib.util.spec_from_file_location("scrape_functions", os.path.join(core.ROOT, "tools", "scrape_functions.py"))
    mod = importlib.util.module_from_spec(spec)
    spec.loader.exec_module(mod)
    from .. import selftest_more
    try:
        table = mod.scrape(core.REPO)
    except Exception as e:
        stats.notes.append("could not scrape examples from the tree under test: %s" % e)
        return 0
    ok, bad, unspec, skipped, failures = selftest_more.validate(table)
    stats.count("examples_validated", ok)
    stats.count("examples_disagreeing_with_reference", bad)
    for f in failures[:5]:
        stats.notes.append("inline example disagrees with the reference evaluator (documentation edited?): %s" % (f,))
    return ok


def run(env):
    quick = env.tier == "quick"
    stats = core.run_workers(__name__, "worker", PROP, env.tier, env.seed, env.driver, env.hooks_on,
                             50 if quick else 800, {"units_per_worker": 3000 if quick else 60000})
    validated = validate_examples(stats)
    missing = sorted(set(eg.PURE) - set(stats.sets.get("functions_with_specified_evaluations", ())))
    extra = {"traces_validated_against_impl": validated, "functions_without_specified_evaluation": missing,
             "functions_total": len(eg.PURE)}
    return core.finish(PROP, env.tier, env.seed, LEVEL, stats, env.t0, RULE, min_conclusive=5000 if quick else 100000, extra=extra,
                       assumptions=["the reference evaluator (vf/exprmodel.py) implements SEMANTICS.md; it agrees with the repository's inline examples (count in traces_validated_against_impl)",
                                    "cases the documentation does not decide are answered UNSPECIFIED by the reference and not compared",
                                    "non-finite arithmetic results are C02's known finding and skipped here"])


def replay(env, unit):
    u = dict(unit)
    u["exprs"] = [from_list(e) for e in unit["exprs"]]
    u["macros"] = {k: from_list(v) for k, v in unit["macros"].items()}
    return replay_unit(env, run_unit, u)
