"""C20 The executable separates data from diagnostics and signals failure by exit code.

The real binary (built from /repo's working tree) is spawned as a child process with pipes / a closed pipe / /dev/full as
stdout; its stdout, stderr and exit status are compared with the in-process run of the same library on the same input.
"""
import os
import subprocess

from .. import core, jsonmodel as jm
from ..main import replay_unit
from . import c06

PROP = "C20"
LEVEL = "exploration"
RULE = ("generated clean/noisy inputs x 4 --on-error policies x valid and invalid configurations x stdout sink {pipe, closed pipe, /dev/full} "
        "x row separators with/without a newline, each a real child process; distinct_nontrivial = distinct (policy, validity, noise, sink, "
        "separator class, exit status) cells")

VALID = [
    [],
    ["--select", ".=v"],
    ["--select", "(string? .)=s", "--select", ".=v"],
    ["--filter", "(not (number? .))"],
    ["--unique"],
    ["--sort-by", "."],
    ["--merge"],
    ["-o", "csv", "--select", ".=v"],
    ["-o", "text", "--select", ".=v", "--headers"],
    ["--take", "2"],
    ["--split-by", "(push [] . .)"],
    ["--split-by", "(push [] .)", "--select", ".=v"],
    ["--set", "one=1", "--filter", "true"],
]
INVALID = [
    ["--select", "(len . ."],
    ["--select", "(nosuchfunction .)"],
    ["--filter", "(len)"],
    ["--sort-by", ". SIDEWAYS"],
    ["--set", "novalue"],
    ["-o", "csv"],
    ["-o", "csv", "--select", ".=v", "--style", "pretty"],
    ["-o", "json", "--headers"],
    ["-o", "csv", "--select", ".=v", "--style", "pretty", "--headers"],
    ["-o", "csv", "--select", ".=v", "--null-keyword", "x", "--utf8-strings"],
    ["--set", "d=1", "--set", "e=2", "--set", "d=3"],
    ["--set", "d=1", "--set", "d =3"],
    ["--set", "@m =1", "--set", " @m=(len .)"],
    ["--sort-by", ".=DESC nulls-last"],
    ["--select", "(- 1 2 3)=x"],
    ["--group-by", "(("],
    ["--on-error", "explode"],
    ["--no-such-option"],
    ["--take", "minus-one"],
]
POLICIES = ("ignore", "stdout", "stderr", "panic")
SEPS = ["\n", " ", "\n\n", ";"]


def gen_unit(rng):
    u = c06.gen_unit(rng)
    if rng.random() < 0.4:
        u["gaps"] = [[] for _ in u["gaps"]]
    valid = rng.random() < 0.7
    if rng.random() < 0.2:
        # rows far above the size of any line buffer between jawk and its stdout: a failed write of such a row leaves nothing
        # behind that a later flush could stumble over again
        big = [b'"' + b"x" * 3000 + b'"', b'{"k":"' + b"y" * 5000 + b'","n":1}', b"[" + b",".join([b"1234567890"] * 400) + b"]"]
        u["values"] = [rng.choice(big) if rng.random() < 0.8 else v for v in u["values"]] or [rng.choice(big)]
        u["gaps"] = [[] for _ in range(len(u["values"]) + 1)]
    return {"values": u["values"], "gaps": u["gaps"], "wsseed": u["wsseed"], "policy": rng.choice(POLICIES), "valid": valid,
            "config": rng.choice(VALID if valid else INVALID), "sep": rng.choice(SEPS), "sink": rng.choice(["pipe", "pipe", "closed", "full"])}


def spawn(binary, args, data, sink):
    """Returns (exit status, stdout bytes or None, stderr bytes)."""
    if sink == "pipe":
        p = subprocess.run([binary] + args, input=data, stdout=subprocess.PIPE, stderr=subprocess.PIPE, timeout=60)
        return p.returncode, p.stdout, p.stderr
    if sink == "full":
        with open("/dev/full", "wb") as f:
            p = subprocess.run([binary] + args, input=data, stdout=f, stderr=subprocess.PIPE, timeout=60)
        return p.returncode, None, p.stderr
    r, w = os.pipe()
    os.close(r)
    try:
        p = subprocess.run([binary] + args, input=data, stdout=w, stderr=subprocess.PIPE, timeout=60)
    finally:
        os.close(w)
    return p.returncode, None, p.stderr


def run_unit(ctx, unit):
    st = ctx.stats
    binary = ctx.params["binary"]
    data, _ = c06.build(unit, True)
    noisy = any(unit["gaps"])
    args = ["--on-error", unit["policy"], "--row-seperator=" + unit["sep"]] + unit["config"]
    ref = ctx.drv.run(core.Case(args, data))
    if ref.result in ("timeout", "abort", "panic"):
        st.inconc("in_process_reference_" + ref.result)
        return
    try:
        rc, out, err = spawn(binary, args, data, unit["sink"])
    except subprocess.TimeoutExpired:
        st.inconc("child_timeout")
        return
    st.count("spawns")
    st.count("conclusive")
    succeeded = ref.result == "ok"

    def bad(sig, msg):
        st.violation(sig, "%s [policy %s, sink %s, sep %r, config %s]" % (msg, unit["policy"], unit["sink"], unit["sep"], unit["config"]), unit,
                     {"args": args, "input": data[:600], "exit": rc, "stdout": None if out is None else out[:600], "stderr": err[:600],
                      "in_process": ref.brief()})
    if rc < 0:
        bad("killed-by-signal", "the child was killed by signal %d" % -rc)
        return
    # what "the run succeeded" means does not come from the code under test alone: a valid configuration on readable input
    # fails only under --on-error=panic with malformed input (C06); an invalid configuration always fails (C18)
    should_succeed = unit["valid"] and not (unit["policy"] == "panic" and noisy)
    unread_noise = "--take" in unit["config"] and noisy and unit["policy"] == "panic"   # the noise may lie behind the last row wanted
    if unit["sink"] == "pipe" and not unread_noise and (rc == 0) != should_succeed:
        bad("exit-status-vs-documented-outcome", "exit status %d but the run %s (valid configuration: %s, malformed input: %s)" % (
            rc, "must succeed" if should_succeed else "must fail", unit["valid"], noisy))
        return
    if unit["sink"] == "pipe":
        if out != ref.stdout:
            bad("stdout-differs", "stdout of the executable differs from the in-process run")
            return
        if succeeded:
            if rc != 0:
                bad("exit-nonzero-on-success", "exit status %d although the run succeeded" % rc)
                return
            if err != ref.stderr:
                bad("stderr-differs", "stderr is not exactly the diagnostics of the run (rows or diagnostics on the wrong stream)")
                return
            if unit["policy"] != "stderr" and err:
                bad("stderr-noise", "something was written to stderr although the run succeeded and the policy is not stderr")
                return
        else:
            if rc == 0:
                bad("exit-zero-on-failure", "exit status 0 although the run failed: %s" % ref.errtext[:200])
                return
            if not err.startswith(ref.stderr) or len(err) <= len(ref.stderr):
                bad("no-message-on-failure", "no failure message on standard error")
                return
        if unit["policy"] == "stderr" and noisy and unit["valid"]:
            st.count("stderr_policy_noisy_runs")
    else:
        # failing sink: whenever the fault-free run writes at least one byte, the executable must fail
        if len(ref.stdout) >= 1:
            if rc == 0:
                bad("output-lost-silently", "exit status 0 although stdout is %s and %d bytes of output were lost" % (
                    "closed" if unit["sink"] == "closed" else "full", len(ref.stdout)))
                return
            if not err:
                bad("no-message-on-output-failure", "output failed without a message on standard error")
                return
            st.count("failing_sink_runs")
            if unit["policy"] == "stderr" and unit["valid"] and unit["gaps"] and unit["gaps"][0] and unit["values"] and "--take" not in unit["config"] and "-o" not in unit["config"] \
                    and not any(t in c06.TRUNCATED for t in unit["gaps"][0]):
                # malformed bytes in front of the first value were read (and reported) before the first row could fail to be
                # written: the diagnostics belong on stderr however the run ends
                if b"error:" not in err:
                    bad("diagnostics-lost-on-failing-exit", "malformed input in front of the first row was read under --on-error=stderr, the run then failed on its dead stdout, and stderr holds no error: line")
                    return
                st.count("diagnostics_kept_on_failing_exit")
        else:
            if succeeded and rc != 0:
                bad("exit-nonzero-nothing-to-write", "exit status %d although nothing had to be written" % rc)
                return
    st.see("nontrivial", (unit["policy"], unit["valid"], noisy, unit["sink"], "\n" in unit["sep"], rc))
    st.see("exit_codes", rc)


READABLE_LAYOUTS = ["linked-directory", "relative-linked-directory", "linked-file", "linked-directory-argument", "nested-directories", "non-utf8-name"]


def run_terminal(ctx, unit, patience=30):
    """No arguments at all and a terminal on standard input ("if omitted the standard in will be used"): what is typed is the
    input, the rows go to stdout, status 0."""
    import pty
    import select
    st = ctx.stats
    binary = ctx.params["binary"]
    lines = unit["lines"]
    m, s = pty.openpty()
    try:
        p = subprocess.Popen([binary] + unit["targs"], stdin=s, stdout=subprocess.PIPE, stderr=subprocess.PIPE)
        os.close(s)
        s = None
        for ln in lines:
            os.write(m, ln + b"\n")
        os.write(m, b"\x04")
        # end of input is end of input: what is typed afterwards belongs to whoever reads the terminal next
        import time
        time.sleep(0.3)
        if p.poll() is None:
            try:
                os.write(m, b'"typed after the end"\n\x04')
            except OSError:
                pass
        try:
            out, err = p.communicate(timeout=patience)
        except subprocess.TimeoutExpired:
            p.kill()
            o2, _ = p.communicate()
            if patience < 90:
                # once more, alone and with three times the patience: a process that still sits on the terminal long after the
                # end of input was typed is not coming back
                os.close(m)
                m = None
                return run_terminal(ctx, unit, patience=90)
            st.count("conclusive")
            st.violation("terminal-stdin-hang", "values and Ctrl-D typed on a terminal: the process was still running %d s later (stdout so far %r)" % (patience, (o2 or b"")[:200]),
                         unit, {"args": unit["targs"]})
            return
    finally:
        if s is not None:
            os.close(s)
        if m is not None:
            os.close(m)
    ref = subprocess.run([binary] + unit["targs"], input=b"\n".join(lines) + b"\n", stdout=subprocess.PIPE, stderr=subprocess.PIPE, timeout=60)
    st.count("spawns", 2)
    st.count("conclusive")
    st.count("terminal_stdin_runs")
    if p.returncode != 0 or out != ref.stdout or err:
        st.violation("terminal-stdin", "values typed on a terminal: status %d, stdout %r (through a pipe: %r), stderr %r" % (p.returncode, out[:200], ref.stdout[:200], err[:200]),
                     unit, {"args": unit["targs"]})
        return
    st.see("nontrivial", ("terminal", tuple(unit["targs"]), len(lines)))


def run_open_stdin(ctx, unit, patience=20):
    """--take N on a producer that stays attached (nothing more, or only blanks, after the N-th value), with the error stream
    on a terminal or on a pipe: the process prints its N rows and ends; what its stderr is connected to changes nothing."""
    import pty
    st = ctx.stats
    binary = ctx.params["binary"]
    m = s = None
    if unit["tty"]:
        m, s = pty.openpty()
    try:
        p = subprocess.Popen([binary, "--take", str(unit["take"])] + unit["targs"], stdin=subprocess.PIPE, stdout=subprocess.PIPE,
                             stderr=s if s is not None else subprocess.PIPE)
        if s is not None:
            os.close(s)
            s = None
        try:
            p.stdin.write(b"\n".join(unit["lines"]) + b"\n" + unit["filler"])
            p.stdin.flush()
        except BrokenPipeError:
            pass
        try:
            p.wait(timeout=patience)
        except subprocess.TimeoutExpired:
            p.kill()
            p.wait()
            if patience < 60:
                if m is not None:
                    os.close(m)
                    m = None
                return run_open_stdin(ctx, unit, patience=60)
            st.count("conclusive")
            st.violation("take-does-not-end-the-run", "--take %d with the producer still attached (stderr on a %s): the process was still running %d s after the last wanted value was written" % (
                unit["take"], "terminal" if unit["tty"] else "pipe", patience), unit, {"args": unit["targs"]})
            return
        out = p.stdout.read()
        try:
            p.stdin.close()
        except Exception:
            pass
    finally:
        if s is not None:
            os.close(s)
        if m is not None:
            os.close(m)
    ref = subprocess.run([binary, "--take", str(unit["take"])] + unit["targs"], input=b"\n".join(unit["lines"]) + b"\n", stdout=subprocess.PIPE, stderr=subprocess.PIPE, timeout=60)
    st.count("spawns", 2)
    st.count("conclusive")
    st.count("open_stdin_take_runs")
    if p.returncode != 0 or out != ref.stdout:
        st.violation("take-with-open-stdin", "--take %d with the producer still attached: status %d, stdout %r (closed input: %r)" % (unit["take"], p.returncode, out[:200], ref.stdout[:200]), unit, {"args": unit["targs"]})
        return
    st.see("nontrivial", ("open-stdin", unit["tty"], unit["take"], len(unit["filler"]) > 0))


def run_positioned(ctx, unit):
    """Standard input is an open file whose offset is not 0 (a caller read a header first): the input is what lies behind the
    offset - the same rows as for those bytes through a pipe."""
    import tempfile
    st = ctx.stats
    binary = ctx.params["binary"]
    os.makedirs(os.path.join(core.TARGET, "scratch"), exist_ok=True)
    head = unit["head"]
    body = b"\n".join(unit["lines"]) + b"\n"
    with tempfile.NamedTemporaryFile(dir=os.path.join(core.TARGET, "scratch"), prefix="c20-pos-") as f:
        f.write(head + body)
        f.flush()
        fd = os.open(f.name, os.O_RDONLY)
        try:
            os.lseek(fd, len(head), os.SEEK_SET)
            p = subprocess.run([binary] + unit["targs"], stdin=fd, stdout=subprocess.PIPE, stderr=subprocess.PIPE, timeout=60)
        finally:
            os.close(fd)
    ref = subprocess.run([binary] + unit["targs"], input=body, stdout=subprocess.PIPE, stderr=subprocess.PIPE, timeout=60)
    st.count("spawns", 2)
    st.count("conclusive")
    st.count("positioned_stdin_runs")
    if p.returncode != ref.returncode or p.stdout != ref.stdout or p.stderr != ref.stderr:
        st.violation("positioned-stdin", "stdin = a file positioned behind a %d-byte header: status %d, stdout %r; the same bytes through a pipe: status %d, stdout %r" % (
            len(head), p.returncode, p.stdout[:200], ref.returncode, ref.stdout[:200]), unit, {"args": unit["targs"]})
        return
    st.see("nontrivial", ("positioned", tuple(unit["targs"]), len(head)))


def run_unreadable(ctx, unit):
    """Inputs that cannot be read at all: stdin that is a directory (the very first read fails), a file argument that does not
    exist, a directory given where the first read fails.  The run must end with a non-zero status and a message on stderr,
    under every policy, and must not print rows it did not read."""
    import tempfile
    st = ctx.stats
    binary = ctx.params["binary"]
    args = ["--on-error", unit["policy"]] + unit["config"]
    os.makedirs(os.path.join(core.TARGET, "scratch"), exist_ok=True)
    d = tempfile.mkdtemp(prefix="c20-", dir=os.path.join(core.TARGET, "scratch"))
    try:
        good = os.path.join(d, "a.json")
        with open(good, "wb") as f:
            f.write(b'{"a": 1}\n{"a": 2}\n')
        kind = unit["unreadable"]
        if kind == "stdin-directory":
            fd = os.open(d, os.O_RDONLY)
            try:
                p = subprocess.run([binary] + args, stdin=fd, stdout=subprocess.PIPE, stderr=subprocess.PIPE, timeout=60)
            finally:
                os.close(fd)
            must_fail = True
        elif kind == "missing-file":
            p = subprocess.run([binary, os.path.join(d, "missing.json")] + args, stdin=subprocess.DEVNULL, stdout=subprocess.PIPE, stderr=subprocess.PIPE, timeout=60)
            must_fail = True
        elif kind == "missing-second-file":
            p = subprocess.run([binary, good, os.path.join(d, "missing.json")] + args, stdin=subprocess.DEVNULL, stdout=subprocess.PIPE, stderr=subprocess.PIPE, timeout=60)
            # a later input that is never needed (the limit was reached before) need not be looked at
            must_fail = "--take" not in unit["config"]
        elif kind in ("socket-file", "socket-in-directory"):
            # something that exists, is no directory and cannot be opened (a UNIX socket): an input failure under every policy
            import socket
            os.makedirs(os.path.join(d, "in"))
            os.rename(good, os.path.join(d, "in", "a.json"))
            good = os.path.join(d, "in", "a.json")
            sk = socket.socket(socket.AF_UNIX)
            try:
                sk.bind(os.path.join(d, "in", "sock"))
                target = [good, os.path.join(d, "in", "sock")] if kind == "socket-file" else [os.path.join(d, "in")]
                p = subprocess.run([binary] + target + args, stdin=subprocess.DEVNULL, stdout=subprocess.PIPE, stderr=subprocess.PIPE, timeout=60)
            finally:
                sk.close()
            must_fail = "--take" not in unit["config"]
        elif kind in READABLE_LAYOUTS:
            # inputs that CAN be read, reached in a roundabout way: status 0, nothing on stderr, the rows of the plain file
            real = os.path.join(d, "real", "deeper")
            os.makedirs(real)
            os.rename(good, os.path.join(real, "a.json"))
            good = os.path.join(real, "a.json")
            ind = os.path.join(d, "in")
            os.makedirs(ind)
            if kind == "linked-directory":
                os.symlink(os.path.join(d, "real"), os.path.join(ind, "link"))
                target = ind
            elif kind == "relative-linked-directory":
                os.makedirs(os.path.join(ind, "sub"))
                os.symlink("../../real/deeper", os.path.join(ind, "sub", "link"))
                target = ind
            elif kind == "linked-file":
                os.symlink(good, os.path.join(ind, "link.json"))
                target = ind
            elif kind == "linked-directory-argument":
                os.symlink(os.path.join(d, "real"), os.path.join(d, "direct"))
                target = os.path.join(d, "direct")
            elif kind == "non-utf8-name":
                # a readable file whose name is not UTF-8, met inside a directory argument
                import shutil as _sh
                _sh.copy(good, os.path.join(d, "plain.json"))
                os.rename(good, os.path.join(os.fsencode(real), b"caf\xe9.json"))
                good = os.path.join(d, "plain.json")       # (the reference run names a copy: such a name cannot be an argument)
                target = os.path.join(d, "real")
            else:   # nested-directories with empty neighbours
                os.makedirs(os.path.join(d, "real", "empty", "er"))
                target = os.path.join(d, "real")
            ref = subprocess.run([binary, good] + args, stdin=subprocess.DEVNULL, stdout=subprocess.PIPE, stderr=subprocess.PIPE, timeout=60)
            p = subprocess.run([binary, target] + args, stdin=subprocess.DEVNULL, stdout=subprocess.PIPE, stderr=subprocess.PIPE, timeout=60)
            st.count("spawns", 2)
            st.count("conclusive")
            st.count("roundabout_input_runs")
            if ref.returncode != 0 or ref.stderr:
                st.violation("plain-file-run-failed", "a run on a readable file failed: %d %r" % (ref.returncode, ref.stderr[:200]), unit, {"args": args})
            elif p.returncode != 0 or p.stderr or p.stdout != ref.stdout:
                st.violation("readable-input-reported-as-failure", "a readable input (%s) gives status %d, stderr %r, and %s rows [policy %s, config %s]" % (
                    kind, p.returncode, p.stderr[:200], "the same" if p.stdout == ref.stdout else "other", unit["policy"], unit["config"]), unit,
                    {"args": args, "stdout": p.stdout[:300], "want": ref.stdout[:300]})
            else:
                st.see("nontrivial", (unit["policy"], kind, 0))
            return
        else:   # unreadable-file (a directory symlinked as a file cannot be produced portably): a file we may not read
            os.chmod(good, 0)
            p = subprocess.run([binary, good] + args, stdin=subprocess.DEVNULL, stdout=subprocess.PIPE, stderr=subprocess.PIPE, timeout=60)
            must_fail = os.geteuid() != 0
    except subprocess.TimeoutExpired:
        st.inconc("child_timeout")
        return
    finally:
        import shutil
        shutil.rmtree(d, ignore_errors=True)
    st.count("spawns")
    st.count("conclusive")
    st.count("unreadable_input_runs")
    if must_fail and (p.returncode == 0 or not p.stderr):
        st.violation("unreadable-input-not-reported", "input could not be read (%s) but exit status is %d and stderr is %r [policy %s, config %s]" % (
            kind, p.returncode, p.stderr[:200], unit["policy"], unit["config"]), unit, {"args": args, "stdout": p.stdout[:300]})
        return
    if p.returncode < 0:
        st.violation("killed-by-signal", "the child was killed by signal %d" % -p.returncode, unit, {"args": args})
        return
    st.see("nontrivial", (unit["policy"], kind, p.returncode))


def worker(ctx):
    st = ctx.stats
    for i in range(ctx.params["units_per_worker"]):
        if ctx.expired():
            st.count("stopped_by_deadline")
            break
        if ctx.rng.random() < 0.03:
            unit = {"terminal": True, "lines": ctx.rng.sample([b'{"a": 1}', b"[1, 2]", b'"x"', b"7", b"null", b'{"k": {"l": []}}', b"true"], ctx.rng.choice((1, 3, 5))),
                    "targs": ctx.rng.choice(([], [], [], ["--unique"], ["-c", ".=v"]))}
            run_terminal(ctx, unit)
            continue
        if ctx.rng.random() < 0.03:
            take = ctx.rng.choice((1, 2, 3))
            # the producer goes quiet right behind the last wanted value (nothing but blanks follow, or nothing at all), or it has
            # already sent more values
            lines = ctx.rng.sample([b'{"a": 1}', b"[1, 2]", b'"x"', b"7", b"null", b'{"k": {"l": []}}', b"true"], take if ctx.rng.random() < 0.6 else 5)
            unit = {"open_stdin": True, "lines": lines, "take": take, "tty": ctx.rng.random() < 0.6, "filler": ctx.rng.choice((b"", b" \n \n", b"\n" * 5000)),
                    "targs": ctx.rng.choice(([], ["--unique"], ["-c", ".=v"], ["--on-error", "stderr"]))}
            run_open_stdin(ctx, unit)
            continue
        if ctx.rng.random() < 0.03:
            unit = {"positioned": True, "head": ctx.rng.choice((b"header v1\n", b'"skip me"\n', b"# " + b"x" * 9000 + b"\n", b"{")),
                    "lines": ctx.rng.sample([b'{"a": 1}', b"[1, 2]", b'"x"', b"7", b"null", b'{"k": {"l": []}}', b"true"], ctx.rng.choice((1, 3, 5))),
                    "targs": ctx.rng.choice(([], ["--unique"], ["-c", ".=v", "-c", "&index=i"], ["--on-error", "stderr"]))}
            run_positioned(ctx, unit)
            continue
        if ctx.rng.random() < 0.2:
            unit = {"unreadable": ctx.rng.choice(["stdin-directory", "missing-file", "missing-second-file", "unreadable-file", "socket-file", "socket-in-directory"] + READABLE_LAYOUTS),
                    "policy": ctx.rng.choice(POLICIES), "config": ctx.rng.choice(VALID), "values": [], "gaps": [[]], "wsseed": 0, "sep": "\n", "sink": "pipe",
                    "valid": True}
            run_unreadable(ctx, unit)
            continue
        unit = gen_unit(ctx.rng)
        run_unit(ctx, unit)
        if i < 1 and ctx.idx < 2:
            st.sample({"config": unit["config"], "policy": unit["policy"], "sink": unit["sink"], "sep": unit["sep"],
                       "input": c06.build(unit)[0][:200].decode("latin-1")})


def run(env):
    quick = env.tier == "quick"
    try:
        binary = core.build_binary()
    except core.BuildFailed as e:
        print("INCONCLUSIVE property=%s build failed: %s" % (PROP, e))
        return 2
    stats = core.run_workers(__name__, "worker", PROP, env.tier, env.seed, env.driver, env.hooks_on,
                             60 if quick else 600, {"units_per_worker": 150 if quick else 3000, "binary": binary})
    return core.finish(PROP, env.tier, env.seed, LEVEL, stats, env.t0, RULE, min_conclusive=300 if quick else 5000,
                       evaluations_key="spawns",
                       assumptions=["the in-process run of the same build (jawk::go under the driver) is the reference for what stdout/stderr should contain",
                                    "closed stdout = pipe whose read end is closed (EPIPE), full stdout = /dev/full (ENOSPC)"])


def replay(env, unit):
    binary = core.build_binary()

    def ru(ctx, unit):
        ctx.params["binary"] = binary
        if unit.get("terminal"):
            run_terminal(ctx, unit)
        elif unit.get("positioned"):
            run_positioned(ctx, unit)
        elif unit.get("open_stdin"):
            run_open_stdin(ctx, unit)
        elif unit.get("unreadable"):
            run_unreadable(ctx, unit)
        else:
            run_unit(ctx, unit)
    return replay_unit(env, ru, unit)
