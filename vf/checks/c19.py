"""C19 64-bit integers survive untouched; number-as-string arithmetic is exact.

(a) digit identity: boundary and random integers of [-2^63, 2^64) are carried through parsing, the non-arithmetic pipeline stages
    and the collection functions in all output styles; every integer printed must have exactly the digits that went in, in the
    position the template predicts.
(b) "+" "-" "*" "abs" "||" and the six comparisons on decimal strings (<= 60 digits, scale <= 40, exponent <= +-100, leading /
    trailing zeros, exponent spellings) against fractions.Fraction; "||" must map equal values to identical strings.
"""
from fractions import Fraction

from .. import core, jsonmodel as jm
from ..main import replay_unit

PROP = "C19"
LEVEL = "exploration"
RULE = ("(a) all boundary integers (+-2^k+-1, 2^53+-k, decimal boundaries) and random 64-bit integers through 30 pipeline/function templates x "
        "{json one-line, concise, pretty, csv, text}; (b) random decimal strings through the number-as-string functions, compared exactly "
        "with Fraction. distinct_nontrivial = distinct (template, integer magnitude class) + distinct (function, operand spelling classes)")

BIG = [x for x in jm.BOUNDARY_INTS if abs(x) >= 2 ** 53] + [2 ** 64 - 1, -(2 ** 63), 2 ** 63, 2 ** 63 - 1, 10 ** 19, 9999999999999999999]

# (name, args, how to compute the expected JSON value from the list of input integers xs); input is {"a":[xs...],"o":{"k0":x0,...},"x":x0}
TEMPLATES = [
    ("identity", [], lambda xs: rec(xs)),
    ("select-path", ["--select=.x=v"], lambda xs: {"v": xs[0]}),
    ("select-arr", ["--select=.a=v"], lambda xs: {"v": xs}),
    ("split", ["--split-by=.a"], lambda xs: ("rows", xs)),
    ("filter-type", ["--filter=(number? .x)", "--select=.x=v"], lambda xs: {"v": xs[0]}),
    ("unique", ["--split-by=.a", "--unique"], lambda xs: ("rows", dedupe(xs))),
    ("sort-const", ["--split-by=.a", "--sort-by=1"], lambda xs: ("rows", xs)),
    ("group", ["--split-by=.a", "--group-by=\"g\""], lambda xs: {"g": xs}),
    ("merge", ["--split-by=.a", "--merge"], lambda xs: xs),
    ("get", ["--select=(get .a 0)=v"], lambda xs: {"v": xs[0]}),
    ("get-key", ["--select=(get .o \"k0\")=v"], lambda xs: {"v": xs[0]}),
    ("take", ["--select=(take .a 2)=v"], lambda xs: {"v": xs[:2]}),
    ("take_last", ["--select=(take_last .a 2)=v"], lambda xs: {"v": xs[-2:]}),
    ("sub", ["--select=(sub .a 1 2)=v"], lambda xs: {"v": xs[1:3]}),
    ("map", ["--select=(map .a .)=v"], lambda xs: {"v": xs}),
    ("filter", ["--select=(filter .a (number? .))=v"], lambda xs: {"v": xs}),
    ("first-last", ["--select=(first .a)=f", "--select=(last .a)=l"], lambda xs: {"f": xs[0], "l": xs[-1]}),
    ("push", ["--select=(push [] .x .x)=v"], lambda xs: {"v": [xs[0], xs[0]]}),
    ("push_front", ["--select=(push_front .a .x)=v"], lambda xs: {"v": [xs[0]] + xs}),
    ("reverese", ["--select=(reverese .a)=v"], lambda xs: {"v": xs[::-1]}),
    ("pop", ["--select=(pop .a)=v", "--select=(pop_first .a)=w"], lambda xs: {"v": xs[:-1], "w": xs[1:]}),
    ("values", ["--select=(values .o)=v"], lambda xs: {"v": xs}),
    ("entries", ["--select=(map (entries .o) .value)=v"], lambda xs: {"v": xs}),
    ("zip", ["--select=(map (zip .a .a) (get . \".1\"))=v"], lambda xs: {"v": xs}),
    ("indexed", ["--select=(map (indexed .a) .value)=v"], lambda xs: {"v": xs}),
    ("default", ["--select=(default .nothing .x)=v"], lambda xs: {"v": xs[0]}),
    ("if", ["--select=(? true .x 0)=v"], lambda xs: {"v": xs[0]}),
    ("as_number", ["--select=(as_number .x)=v"], lambda xs: {"v": xs[0]}),
    ("parse-stringify", ["--select=(parse (stringify .a))=v"], lambda xs: {"v": xs}),
    ("put", ["--select=(put {} \"k\" .x)=v"], lambda xs: {"v": {"k": xs[0]}}),
    ("set-var", ["--select=(set \"n\" .x (push [] :n))=v"], lambda xs: {"v": [xs[0]]}),
    ("pipe", ["--select=(| .a (get . 0))=v"], lambda xs: {"v": xs[0]}),
    ("sort_by-const", ["--select=(sort_by .a 1)=v"], lambda xs: {"v": xs}),
    ("flat_map", ["--select=(flat_map .a (push [] .))=v"], lambda xs: {"v": xs}),
    ("fold", ["--select=(fold .a [] (push .so_far .value))=v"], lambda xs: {"v": xs}),
    ("group_by-fn", ["--select=(group_by .a \"k\")=v"], lambda xs: {"v": {"k": xs}}),
    # equality and ordering among integers that share one double (2^53 and 2^53+1, 2^64-1 and 2^64-2, ...): the values and
    # their number must survive, whatever order a sort puts them in ("multiset": compared as sorted lists of exact integers)
    ("sort_unique", ["--select=(sort_unique .a)=v"], lambda xs: ("multiset", xs)),
    ("sort-fn", ["--select=(sort .a)=v"], lambda xs: ("multiset", xs)),
    ("sort-by-self", ["--split-by=.a", "--sort-by=."], lambda xs: ("multirows", xs)),
    ("sort-unique-opt", ["--split-by=.a", "--sort-by=.", "--unique"], lambda xs: ("multirows", xs)),
    ("filter-eq", ["--split-by=.a", "--filter=(= . ^.x)"], lambda xs: ("rows", [xs[0]])),
    ("filter-neq", ["--select=(filter .a (!= . ^.x))=v"], lambda xs: {"v": xs[1:]}),
    ("eq-matrix", ["--select=(map .a (= . ^.x))=v"], lambda xs: {"v": [True] + [False] * (len(xs) - 1)}),
    # integers that enter through the command line (--set / -e) rather than through the input
    ("preset-var", "PRESET", lambda xs: {"v": xs[0], "w": [xs[1], xs[0]], "same": True}),
    # type guards and casts hand a number back as it is
    ("as-number", ["--select=(as_number .x)=v", "--select=(map .a (as_number .))=w", "--select=(as_string (stringify .x))=s"], lambda xs: {"v": xs[0], "w": xs, "s": str(xs[0])}),
    ("guards", ["--select=(? (number? .x) .x 0)=v", "--select=(filter .a (number? .))=w", "--select=(default .nothing .x)=d", "--select=(first (push [] .x))=f"],
     lambda xs: {"v": xs[0], "w": xs, "d": xs[0], "f": xs[0]}),
]
STYLES = [["--style", "one-line"], ["--style", "consise"], ["--style", "pretty"]]


def rec(xs):
    return {"a": xs, "o": {"k%d" % i: x for i, x in enumerate(xs)}, "x": xs[0]}


def dedupe(xs):
    out = []
    for x in xs:
        if x not in out:
            out.append(x)
    return out


def mag(x):
    a = abs(x)
    return "small" if a < 2 ** 31 else "lt53" if a < 2 ** 53 else "lt63" if a < 2 ** 63 else "ge63"


def gen_int_unit(rng):
    n = rng.choice((2, 3, 4, 6))
    xs = []
    for _ in range(n):
        r = rng.random()
        xs.append(rng.choice(BIG) if r < 0.5 else rng.choice(jm.BOUNDARY_INTS) if r < 0.7 else rng.randint(-(2 ** 63), 2 ** 64 - 1))
    # distinct values: equal integers would be legitimately merged by --unique; keep the expectation simple
    if rng.random() < 0.5:
        # a neighbour that rounds to the same double as an existing member
        x = rng.choice(xs)
        y = x + rng.choice((-1, 1))
        if -(2 ** 63) <= y < 2 ** 64:
            xs.insert(rng.randrange(len(xs) + 1), y)
    xs = dedupe(xs)
    if len(xs) < 2:
        xs.append(xs[0] - 1 if xs[0] > -(2 ** 63) else xs[0] + 1)
    t = rng.randrange(len(TEMPLATES))
    return {"kind": "int", "xs": xs, "template": t, "style": rng.randrange(len(STYLES)), "seed": rng.getrandbits(16)}


# plain integers with sixteen and more trailing zeros (a normal form switches to exponent notation somewhere there)
INT_EDGES_Z = [10 ** 15, 10 ** 16, 10 ** 17, 2 * 10 ** 17, 123 * 10 ** 16, -(10 ** 18), 10 ** 18, 5 * 10 ** 16, -(2 * 10 ** 17), 10 ** 20, 10 ** 30]
# around the 128-bit integer range (two operands that fit, a result that does not)
INT_EDGES_128 = [2 ** 127 - 1, -(2 ** 127) + 1, 10 ** 38, -(10 ** 38), 10 ** 38 - 1, -(10 ** 38) + 1, 9 * 10 ** 37, -(9 * 10 ** 37) - 1, 2 ** 126, -(2 ** 126), 2 ** 128 - 1, 1, -1]
INT_EDGES = INT_EDGES_Z + INT_EDGES_128 + [2 ** 63, 2 ** 63 - 1, -(2 ** 63), -(2 ** 63) - 1, 2 ** 64, 2 ** 64 - 1, 2 ** 31, -(2 ** 31), 2 ** 53, 2 ** 53 + 1, -(2 ** 53) - 1,
             2 ** 32, 10 ** 19, -(10 ** 19), 2 ** 127, -(2 ** 127), 0]


def dec_string(rng):
    if rng.random() < 0.12:
        # plain integers at the edges of the machine integer types (a fast path through i64/u64/f64 would show here)
        s = str(rng.choice(INT_EDGES))
        return s + rng.choice(("", "", ".0", "e0", ".000"))
    digits = rng.choice((1, 2, 5, 17, 20, 40, 60))
    ip = "".join(rng.choice("0123456789") for _ in range(rng.randint(1, digits)))
    s = ip
    if rng.random() < 0.06:
        # a fraction written without its integer part (".5"): the decimal reader takes it, so it is one more spelling
        s = "." + "".join(rng.choice("0123456789") for _ in range(rng.randint(1, min(40, digits))))
    elif rng.random() < 0.6:
        s += "." + "".join(rng.choice("0123456789") for _ in range(rng.randint(1, min(40, digits))))
    if rng.random() < 0.3 and not s.startswith("."):
        s = "0" * rng.randint(1, 4) + s
    if rng.random() < 0.3 and "." in s:
        s += "0" * rng.randint(1, 4)
    if rng.random() < 0.4:
        # (now and then far beyond the range of a double: the arithmetic is decimal, not floating point)
        s += rng.choice("eE") + rng.choice(("", "+", "-")) + str(rng.choice((0, 1, 2, 5, 20, 100)) if rng.random() < 0.9 else rng.choice((308, 324, 350, 400, 1000)))
    if rng.random() < 0.4:
        s = "-" + s
    return s


def respell(rng, s):
    """Another spelling of the same decimal value."""
    f = Fraction(s)
    neg = f < 0
    f = abs(f)
    # scale to integer
    k = 0
    while f.denominator != 1:
        f *= 10
        k += 1
    n = f.numerator
    shift = rng.randint(0, 5)
    text = str(n) + "0" * shift
    exp = -k - shift
    style = rng.randrange(3)
    if style == 0:
        out = text + "e" + str(exp)
    elif style == 1:
        out = "000" + text + ".000E" + ("+" if exp >= 0 else "") + str(exp)
    else:
        out = text + "E" + str(exp)
    return ("-" if neg else "") + out


NAS_OPS = ['"+"', '"-"', '"*"', '"abs"', '"||"', '"<"', '"<="', '">"', '">="', '"="', '"!="', '"-"1', '"sort_by"', '"sort_by"']


def pad_int(rng):
    """Digit-only spellings with leading zeros and different lengths (the same values as shorter spellings)."""
    n = rng.choice((0, 5, 7, 10, 99, 100, 1000, rng.randint(0, 10 ** rng.choice((1, 3, 25)))))
    return "0" * rng.choice((0, 0, 1, 2, 4)) + str(n)


def gen_nas_unit(rng):
    op = rng.choice(NAS_OPS)
    if op == '"sort_by"':
        keys = []
        for _ in range(rng.choice((2, 3, 5, 8, 12, 33, 48, 96))):       # (beyond the sizes a library sorts by insertion)
            r = rng.random()
            keys.append(pad_int(rng) if r < 0.45 else respell(rng, rng.choice(keys)) if keys and r < 0.65 else dec_string(rng))
        return {"kind": "nas", "op": op, "keys": keys, "fn": rng.choice(['"sort_by"', '"order_by"', "sort_by_nas", "order_by_nas"]), "seed": rng.getrandbits(16)}
    if op in ('"+"', '"*"', '"-"') and rng.random() < 0.08:
        good = [jm.dumps(rng.choice(("0", "0.00", "-0.0", "0e5", "12", "1.5"))) for _ in range(rng.choice((1, 2)))]
        bad = rng.choice(['"n/a"', '""', "7", "true", "null", "[1]", ".nosuch", ".s", ".n", '"1,5"', '"1 2"', '"--1"'])
        args = good + [bad] if rng.random() < 0.6 else [bad] + good
        if op == '"-"':
            args = [good[0], bad] if rng.random() < 0.5 else [bad, good[0]]
        return {"kind": "nas", "op": op, "notnum": bad, "args": args, "seed": rng.getrandbits(16)}
    a, b, c = dec_string(rng), dec_string(rng), dec_string(rng)
    if rng.random() < 0.3:
        b = respell(rng, a)
    return {"kind": "nas", "op": op, "a": a, "b": b, "c": c, "nargs": rng.choice((2, 3)), "seed": rng.getrandbits(16),
            "wrap": rng.choice((0, 0, 1, 2, 3, 4))}


# integers of the 64-bit ranges written the way a double is written (fraction, exponent): still those integers
DSPELT = [("1e19", 10 ** 19), ("9223372036854775808.0", 2 ** 63), ("12E18", 12 * 10 ** 18), ("1.8446744073709549568e19", 18446744073709549568),
          ("9.223372036854775808e18", 2 ** 63), ("1e18", 10 ** 18), ("4e18", 4 * 10 ** 18), ("9.3e18", 93 * 10 ** 17),
          ("10000000000000000000.0", 10 ** 19), ("1.5e19", 15 * 10 ** 18), ("9007199254740992.0", 2 ** 53), ("-4611686018427387904.0", -(2 ** 62)),
          ("1E2", 100), ("-0.0", 0), ("13835058055282163712.000", 2 ** 63 + 2 ** 62), ("1.0e0", 1)]


def run_dspelt(ctx, unit):
    st = ctx.stats
    items = [DSPELT[i] for i in unit["items"]]
    data = "\n".join('{"x":%s,"l":[%s]}' % (t, t) for t, _ in items).encode()
    args = [["--select", ".x=x", "--select", "(stringify .l)=s", "--select", "(= .x %d)=e" % items[0][1]], [], ["--sort-by", "1", "--select", "(first .l)=x"],
            ["--select", "(default .nothing .x)=x", "--style", "consise"]][unit["variant"]]
    o = ctx.drv.run(core.Case(args, data))
    if o.result != "ok":
        st.violation("result:" + o.result, "run failed: %s %s" % (o.errtext, o.panicinfo), unit, {"args": args})
        return
    st.count("conclusive")
    rows = [jm.plain(r) for r in jm.read_rows(o.stdout)]
    if len(rows) != len(items):
        st.violation("row-count", "%d rows for %d values" % (len(rows), len(items)), unit, {"stdout": o.stdout[:400]})
        return
    for (t, want), row in zip(items, rows):
        got = row.get("x")
        ok = isinstance(got, int) and not isinstance(got, bool) and got == want
        if ok and "s" in row:
            ok = row["s"].replace(" ", "") == "[%d]" % want
        if ok and "e" in row:
            ok = row["e"] is (want == items[0][1])
        if not ok:
            st.violation("integer-changed:double-spelt", "the integer %d written as %s comes out as %r" % (want, t, row), unit, {"args": args, "row": row})
            return
        st.count("double_spelt_integers")
    st.see("nontrivial", ("dspelt", unit["variant"], tuple(unit["items"])[:2]))


def run_unit(ctx, unit):
    st = ctx.stats
    if unit["kind"] == "dspelt":
        return run_dspelt(ctx, unit)
    if unit["kind"] == "int":
        name, targs, fexp = TEMPLATES[unit["template"]]
        xs = unit["xs"]
        data = jm.dumps(rec(xs)).encode()
        out_mode = unit["seed"] % 5
        exp = fexp(xs)
        if targs == "PRESET":
            targs = ["--set", "pv=%d" % xs[0], "-e", "pw= %d " % xs[1], "--select=:pv=v", "--select=(push [] :pw :pv)=w", "--select=(= .x :pv)=same"]
        args = list(targs)
        if out_mode < 3:
            args += STYLES[unit["style"]]
        o = ctx.drv.run(core.Case(args, data))
        if o.result != "ok":
            st.violation("run:" + o.result, "run failed: %s %s" % (o.errtext, o.panicinfo), unit, {"args": args})
            return
        st.count("conclusive")
        try:
            rows = jm.read_rows(o.stdout)
        except jm.JsonError as e:
            st.violation("unreadable", str(e), unit, {"stdout": o.stdout[:500]})
            return
        if isinstance(exp, tuple) and exp[0] in ("multiset", "multirows"):
            got = rows if exp[0] == "multirows" else (rows[0].get("v") if len(rows) == 1 and isinstance(rows[0], dict) else None)
            want_rows = exp[1]
            ok = (isinstance(got, list) and all(isinstance(t, jm.JNum) and t.is_int for t in got)
                  and sorted(int(t.text) for t in got) == sorted(exp[1]))
            if ok:
                rows = got
        else:
            want_rows = exp[1] if isinstance(exp, tuple) else [exp]
            ok = len(rows) == len(want_rows) and all(jm.same(w, g) for w, g in zip(want_rows, rows))
        if ok:
            # digit identity: every integer token must be spelt as an integer with exactly the input digits
            toks = tokens(rows)
            allowed = set(str(x) for x in xs) | {"0", "1", "2", "3", "4", "5"}
            ok = all(t.is_int and t.text in allowed for t in toks)
        if not ok:
            st.violation("integer-changed:" + name, "integers do not come out digit for digit through template %s" % name, unit,
                         {"args": args, "input": data[:600], "expected": want_rows, "stdout": o.stdout[:800]})
            return
        for x in xs:
            st.see("nontrivial", (name, mag(x)))
        st.count("integers_carried", len(xs))
        if any(abs(x) >= 2 ** 53 for x in xs):
            st.count("units_with_integers_ge_2_53")
        # csv / text rendering of the scalar
        if out_mode >= 3:
            mode = "csv" if out_mode == 3 else "text"
            o2 = ctx.drv.run(core.Case(["-o", mode, "--select=.x=v", "--select=(get .a 1)=w"], data))
            if o2.result != "ok":
                st.violation("run-%s:%s" % (mode, o2.result), "run failed: %s" % o2.errtext, unit, None)
                return
            line = o2.stdout.decode("utf-8", "replace").split("\n")[1 if mode == "csv" else 0]
            sep = ", " if mode == "csv" else "\t"
            if line.split(sep) != [str(xs[0]), str(xs[1])]:
                st.violation("integer-changed:" + mode, "%s output does not carry the integers digit for digit" % mode, unit,
                             {"stdout": o2.stdout[:300], "expected": [xs[0], xs[1]]})
                return
            st.see("nontrivial", (mode, mag(xs[0])))
        return
    # number as string
    op = unit["op"]
    if op == '"sort_by"':
        items = [{"i": i, "k": k} for i, k in enumerate(unit["keys"])]
        expr = "(map (%s . .k) .i)" % unit["fn"]
        o = ctx.drv.run(core.Case(["--select=%s=v" % expr], jm.dumps(items).encode()))
        if o.result != "ok":
            st.violation("run:" + o.result, "run failed: %s %s" % (o.errtext, o.panicinfo), unit, {"expr": expr})
            return
        st.count("conclusive")
        rows = [jm.plain(r) for r in jm.read_rows(o.stdout)]
        got = rows[0].get("v") if rows else None
        want = [x["i"] for x in sorted(items, key=lambda x: Fraction(x["k"]))]     # sorted() is stable
        if got != want:
            st.violation("nas-sort-order", "%s does not order number-as-string keys by their exact values (stable): keys %r, order %r, exact order %r" % (
                unit["fn"], unit["keys"], got, want), unit, {"expr": expr, "got": got, "exact": want})
            return
        st.see("nontrivial", (op, len(unit["keys"]), any(k.startswith("0") and len(k) > 1 for k in unit["keys"]), any("e" in k.lower() for k in unit["keys"])))
        st.count("nas_sorts_checked")
        return
    if unit.get("notnum") is not None:
        # "if all the arguments are numbers as string": one that is not makes the result nothing, wherever it stands (also
        # behind a zero factor, also behind operands whose sum is already known)
        args = list(unit["args"])
        expr = "(%s %s)" % (op, " ".join(args))
        o = ctx.drv.run(core.Case(["--select=%s=v" % expr, "--select=1=one"], b'{"z":"0","n":7,"s":"n/a"}'))
        if o.result != "ok":
            st.violation("run:" + o.result, "run failed: %s %s" % (o.errtext, o.panicinfo), unit, {"expr": expr})
            return
        st.count("conclusive")
        rows = [jm.plain(r) for r in jm.read_rows(o.stdout)]
        if not rows or "v" in rows[0]:
            st.violation("nas-not-a-number-accepted:" + op, "%s gave %r although one argument is not a number as string" % (expr, rows[0].get("v") if rows else None), unit, {"expr": expr})
            return
        st.count("nas_non_number_operands")
        st.see("nontrivial", (op, "notnum", len(args)))
        return
    a, b, c = unit["a"], unit["b"], unit["c"]
    fa, fb, fc = Fraction(a), Fraction(b), Fraction(c)
    qa, qb, qc = jm.dumps(a), jm.dumps(b), jm.dumps(c)
    # operands are literals, fields of the record, or computed from fields (default / ? / pipe): the same decimal strings either way
    wrap = unit.get("wrap", 0)
    if wrap:
        forms = {1: (".a", ".b", ".c"), 2: ('(default .a "0")', '(default .nothing .b)', '(? (string? .c) .c "0")'),
                 3: ("(| .a .)", '(concat .b "")', "(get .l 0)"), 4: ('(default .a "0")', ".b", '(default .c "1")')}[wrap]
        qa, qb, qc = forms
    if op in ('"+"', '"*"'):
        ops = [qa, qb] + ([qc] if unit["nargs"] == 3 else [])
        vals = [fa, fb] + ([fc] if unit["nargs"] == 3 else [])
        expr = "(%s %s)" % (op, " ".join(ops))
        want = sum(vals, Fraction(0)) if op == '"+"' else vals[0] * vals[1] * (vals[2] if len(vals) == 3 else 1)
    elif op == '"-"':
        expr, want = "(%s %s %s)" % (op, qa, qb), fa - fb
    elif op == '"-"1':
        expr, want = '("-" %s)' % qa, -fa
    elif op == '"abs"':
        expr, want = "(%s %s)" % (op, qa), abs(fa)
    elif op == '"||"':
        expr, want = "(%s %s)" % (op, qa), fa
    else:
        expr = "(%s %s %s)" % (op, qa, qb)
        want = {'"<"': fa < fb, '"<="': fa <= fb, '">"': fa > fb, '">="': fa >= fb, '"="': fa == fb, '"!="': fa != fb}[op]
    sel = ["--select=%s=v" % expr]
    if op == '"||"':
        sel.append('--select=("||" %s)=w' % jm.dumps(respell(__import__("random").Random(unit["seed"]), a)))
    o = ctx.drv.run(core.Case(sel, jm.dumps({"a": a, "b": b, "c": c, "l": [c]}).encode() if unit.get("wrap") else b"null"))
    if o.result != "ok":
        st.violation("run:" + o.result, "run failed: %s %s" % (o.errtext, o.panicinfo), unit, {"expr": expr})
        return
    st.count("conclusive")
    rows = [jm.plain(r) for r in jm.read_rows(o.stdout)]
    got = rows[0].get("v") if rows else None
    if isinstance(want, bool):
        good = got is want
    else:
        try:
            good = isinstance(got, str) and Fraction(got) == want
        except (ValueError, ZeroDivisionError):
            good = False
    if not good:
        st.violation("nas-inexact:" + op.strip('"1'), "%s = %r, exact arithmetic gives %s" % (expr, got, want), unit, {"expr": expr, "got": got, "exact": str(want)})
        return
    if op == '"||"':
        w = rows[0].get("w")
        if w != got:
            st.violation("nas-normalise-not-canonical", "equal values normalise to different strings: %r vs %r" % (got, w), unit, {"a": a})
            return
    st.see("nontrivial", (op, len(a) > 20, "e" in a.lower(), a.startswith("0") or a.startswith("-0"), "." in a))
    st.count("nas_results_checked")


def tokens(v):
    out = []
    if isinstance(v, jm.JNum):
        out.append(v)
    elif isinstance(v, list):
        for x in v:
            out += tokens(x)
    elif isinstance(v, dict):
        for x in v.values():
            out += tokens(x)
    return out


def worker(ctx):
    st = ctx.stats
    for i in range(ctx.params["units_per_worker"]):
        if ctx.expired():
            st.count("stopped_by_deadline")
            break
        r0 = ctx.rng.random()
        unit = gen_int_unit(ctx.rng) if r0 < 0.48 else gen_nas_unit(ctx.rng) if r0 < 0.96 else \
            {"kind": "dspelt", "items": [ctx.rng.randrange(len(DSPELT)) for _ in range(ctx.rng.choice((1, 3, 6)))], "variant": ctx.rng.randrange(4)}
        run_unit(ctx, unit)
        st.count("units")
        if i < 2 and ctx.idx == 0:
            st.sample(unit)


def run(env):
    quick = env.tier == "quick"
    stats = core.run_workers(__name__, "worker", PROP, env.tier, env.seed, env.driver, env.hooks_on,
                             40 if quick else 400, {"units_per_worker": 10000 if quick else 80000})
    return core.finish(PROP, env.tier, env.seed, LEVEL, stats, env.t0, RULE, min_conclusive=5000 if quick else 50000,
                       assumptions=["number-as-string operands are spelt -?(digits[.digits]|.digits)[(e|E)[+-]?digits] (leading zeros allowed); other spellings are not claimed by the documentation",
                                    "sorting among integers >= 2^53 is only required to return the same multiset (C07 excludes their order); templates sort by a constant"])


def replay(env, unit):
    return replay_unit(env, run_unit, unit)
