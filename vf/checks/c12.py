"""C12 Bindings are lexical and transparent; pipes and later selects keep their inputs.

Metamorphic oracle inside one real run: columns come in pairs (bound form | manually substituted form) and must be equal
(or both absent) for every input row:
   (set "n" V E)        | E[V/:n]          V a literal
   (define "m" M E)     | E[M/@m]          M an arbitrary (macro-free) body
   --set n=V ... E      | E[V/:n]
   --set @m=M ... E     | E[M/@m]
   E in --select #1     | E in --select #2..#4       (also after --split-by, where ^ is the record)
E is generated so that it uses ^, ^^ inside map/filter/fold/pipe bodies under the binding.
"""
from .. import core, exprgen as eg, jsonmodel as jm
from ..main import replay_unit

PROP = "C12"
LEVEL = "exploration"
RULE = ("generated bodies E (C04 grammar with ^/^^ under map/filter/sort_by/pipe bodies, nested and shadowing set/define) x binding forms {set, "
        "define, --set variable, --set macro, select position 1..4, after --split-by} evaluated as paired columns on 1-8 generated inputs; "
        "distinct_nontrivial = distinct (binding form, uses-parent-under-binding, body text) with the value present for at least one input")

FORMS = ("set", "define", "preset-var", "preset-macro", "position", "position-split", "pipe-parent", "macro-late-var", "recursive-macro", "set-twin",
         "selected-under-binding", "preset-in-stage", "frame-names", "define-in-macro",
         "computed-name")
# terminating self-referential macro bodies (tree and linear recursion) that read the enclosing input or a variable bound on the way down
RECURSIVE = [
    ("f", '(? (<= . 1) ^ (+ (| (- . 1) @f) (| (- . 2) @f)))', "(| .i @f)"),
    ("f", '(? (<= . 1) (push [] . ^) (push (| (- . 1) @f) (| (- . 2) @f)))', "(| .i @f)"),
    ("g", '(? (<= . 0) :acc (set "acc" (+ :acc .) (| (- . 1) @g)))', '(set "acc" 0 (| .i @g))'),
    ("g", '(? (<= . 0) :acc (set "acc" (push :acc .) (push (| (- . 1) @g) (| (- . 2) @g))))', '(set "acc" [] (| .i @g))'),
    ("h", '(? (<= . 1) ^^ (+ (| (- . 1) (| . @h)) (| (- . 2) (| . @h))))', "(| .i (| . @h))"),
]
IDENTITY_LIKE = [".", "(abs .)", "(floor .)", "(default . 0)", "(as_number .)", "(? true . 1)", "(round .)", "(sort .)", "(take . 100)",
                 "(as_string .)", "(concat . \"\")", "(| . .)", "(parse (stringify .))", "(reverese .)", "(+ . 0)", "(- .)", "(not .)", "(size .)"]


def subst_var(ast, name, lit):
    k = ast[0]
    if k == "var" and ast[1] == name:
        return lit
    if k != "call":
        return ast
    f, args = ast[1], ast[2]
    if f == ":" and len(args) == 1 and args[0] == ("lit", name):
        return lit
    if f == "set" and len(args) == 3 and args[0] == ("lit", name):
        # value sees the outer binding, body sees the inner one
        return ("call", f, (args[0], subst_var(args[1], name, lit), args[2]))
    return ("call", f, tuple(subst_var(a, name, lit) for a in args))


def subst_macro(ast, name, body):
    k = ast[0]
    if k == "macro" and ast[1] == name:
        return body
    if k != "call":
        return ast
    f, args = ast[1], ast[2]
    if f == "@" and len(args) == 1 and args[0] == ("lit", name):
        return body
    if f == "define" and len(args) == 3 and args[0] == ("lit", name):
        return ast
    return ("call", f, tuple(subst_macro(a, name, body) for a in args))


def uses_parent(ast):
    return any(n[0] == "path" and n[1] > 0 for n in eg.walk(ast))


def body_with_parents(rng, g, sc, kind):
    """A body that (usually) reaches ^ / ^^ from inside a nested input."""
    for _ in range(20):
        e = g.gen(kind, sc)
        if uses_parent(e) or rng.random() < 0.15:
            return e
    return e


def wrapped(wrap, e):
    if wrap is None:
        return e
    w, src = wrap
    if w == "map":
        return ("call", "map", (src, e))
    if w == "pipe":
        return ("call", "|", (src, e))
    return ("call", "map", (("call", "filter", (src, ("lit", True))), e))


def sparse_record(rng):
    r = eg.gen_record(rng)
    for k in list(r):
        if rng.random() < 0.6:
            del r[k]
    return r


def gen_unit(rng):
    form = rng.choice(FORMS)
    g = eg.Gen(rng, ill_typed=0.05, maxdepth=3, allow_parse_selection=False)
    g.computed_names = False
    g.heavy_regex = False      # patterns that take milliseconds to compile, times thousands of records, are C04's and C13's business
    if rng.random() < 0.03:
        # a long run over sparse records: bindings that mostly yield nothing, hundreds of times, before the ones that count
        # (anything a binding form accumulates per run shows up only here)
        inputs = [sparse_record(rng) for _ in range(rng.choice((700, 1200, 2000)))] + [eg.gen_record(rng) for _ in range(4)]
    else:
        inputs = [eg.gen_record(rng) for _ in range(rng.choice((1, 2, 4, 8)))]
    u = {"form": form, "input": "\n".join(jm.dumps(v) for v in inputs).encode(), "pre": [], "pairs": [], "long": len(inputs) > 100}
    if form == "selected-under-binding":
        # a later selection reads an earlier one through /name/: a binding around that reference changes nothing
        X = rng.choice((".n", ".s", ".i", "(size .arr)", ".obj", ".b"))
        u["pre"] = ["--select", X + "=first"]
        if rng.random() < 0.4:
            u["pre"] = ["--split-by=" + rng.choice([".arr", "(push [] .)"])] + u["pre"]
        cands = [('(set "x" 5 (push [] /first/ :x))', "(push [] /first/ 5)"), ('(define "m" /first/ (push [] @m .i))', "(push [] /first/ .i)"),
                 ('(set "x" /first/ :x)', "/first/"), ('(set "unused" 1 /first/)', "/first/"), ('(define "unused" 1 (push [] /first/))', "(push [] /first/)"),
                 ('(set "x" 1 (define "m" (push [] /first/ :x) @m))', "(push [] /first/ 1)")]
        if rng.random() < 0.5:
            u["pre"] = ["--set", "@pm=(push [] /first/ 1)", "--set", "pv=7"] + u["pre"]
            cands += [("@pm", "(push [] /first/ 1)"), ("(push [] /first/ :pv)", "(push [] /first/ 7)")]
        for a, b in rng.sample(cands, rng.choice((1, 2, 3))):
            u["pairs"].append((a, b, False))
        return u
    if form == "define-in-macro":
        # a macro whose body holds a define of its own is expanded under two different macro environments: each expansion is
        # the body written out there
        if rng.random() < 0.5:
            u["pairs"].append(('(define "m" (define "h" (push [] @g) @h) (push [] (define "g" 1 @m) (define "g" 2 @m)))', "(push [] (push [] 1) (push [] 2))", False))
            u["pairs"].append(('(define "m" (define "h" (+ @g ^.i) (* @h 2)) (map (push [] 1 2 3) (define "g" . @m)))', "(map (push [] 1 2 3) (* (+ . ^.i) 2))", True))
        else:
            u["pre"] = ["--set", '@mm=(define "h" (push [] @label .i) @h)']
            u["pairs"].append(('(define "label" "a" @mm)', '(push [] "a" .i)', False))
            u["pairs"].append(('(define "label" "b" @mm)', '(push [] "b" .i)', False))
            u["pairs"].append(('(define "label" (size .arr) (push [] @mm (define "label" "c" @mm)))', '(push [] (push [] (size .arr) .i) (push [] "c" .i))', False))
        return u
    if form == "frame-names":
        # functions that hand their body an object with members called so_far / value / index / key bind no variables of
        # those names: a user's variable of that name is still the user's; and a variable and a macro may share a name
        cands = [('(set "index" 7 (fold .arr 0 (+ (default .so_far 0) :index)))', '(fold .arr 0 (+ (default .so_far 0) 7))'),
                 ('(set "value" 5 (fold .arr [] (push (default .so_far []) :value)))', '(fold .arr [] (push (default .so_far []) 5))'),
                 ('(set "so_far" "x" (fold .strs "" (concat (default .so_far "") :so_far)))', '(fold .strs "" (concat (default .so_far "") "x"))'),
                 ('(set "key" 1 (map (entries .obj) (push [] .key :key)))', '(map (entries .obj) (push [] .key 1))'),
                 ('(set "index" 9 (map (indexed .arr) (+ .index :index)))', '(map (indexed .arr) (+ .index 9))'),
                 ('(set "value" 2 (map_values .obj (push [] . :value)))', '(map_values .obj (push [] . 2))'),
                 ('(set "value" [1] (map (indexed .strs) (push :value .value)))', '(map (indexed .strs) (push [1] .value))'),
                 ('(define "value" (size .) (fold .arr 0 (+ (default .so_far 0) (default @value 0))))', '(fold .arr 0 (+ (default .so_far 0) (default (size .) 0)))'),
                 # the callbacks of the other list / object functions see the caller's bindings, too
                 ('(set "n" -1 (sort_by .arr (* . :n)))', "(sort_by .arr (* . -1))"), ('(define "neg" (* . -1) (order_by .arr @neg))', "(order_by .arr (* . -1))"),
                 ('(set "k" 2 (group_by .arr (stringify (% . :k))))', "(group_by .arr (stringify (% . 2)))"), ('(set "m" 1 (filter .arr (> . :m)))', "(filter .arr (> . 1))"),
                 ('(set "p" "x" (map_keys .obj (concat :p .)))', '(map_keys .obj (concat "x" .))'), ('(set "m" 1 (filter_values .obj (> . :m)))', "(filter_values .obj (> . 1))"),
                 ('(set "m" "a" (filter_keys .obj (= . :m)))', '(filter_keys .obj (= . "a"))'), ('(set "m" 1 (flat_map .arr (push [] . :m)))', "(flat_map .arr (push [] . 1))"),
                 ('(set "n" -1 (sort_by_values_by .obj (* . :n)))', "(sort_by_values_by .obj (* . -1))"),
                 # a name is the string it is: blanks at its ends belong to it
                 ('(set " n" 5 (: " n"))', "5"), ('(set "n " 6 (get_variable "n "))', "6"), ('(define "add a " (push [] .i) (@ "add a "))', "(push [] .i)"),
                 ('(set "n" 1 (set " n" 2 (push [] (: " n") (: "n"))))', "(push [] 2 1)"),
                 # the innermost binding of a name is the one in force, and only inside its own body
                 ('(set "a" 1 (set "a" 2 :a))', "2"), ('(set "a" 1 (push [] (set "a" 2 :a) :a))', "(push [] 2 1)"), ('(define "m" 1 (define "m" (size .arr) @m))', "(size .arr)"),
                 ('(set "a" 1 (set "b" 2 (set "a" (default .i 0) (push [] :a :b))))', "(push [] (default .i 0) 2)"), ('(define "m" .i (push [] (define "m" 0 @m) @m))', "(push [] 0 .i)"),
                 ('(set "a" 1 (set "b" 2 (set "c" 3 (set "d" 4 (set "a" 5 (push [] :a :b :c :d))))))', "(push [] 5 2 3 4)"),
                 ('(set "a" (default .i 0) (set "a" (+ :a 1) (set "a" (+ :a 1) :a)))', "(+ (default .i 0) 2)")]
        if rng.random() < 0.5:
            u["pre"] = ["--set", "index=3", "--set", "@index=(size .)", "--set", "@twin=(+ 1 1)", "--set", "twin=\"t\""]
            rng.shuffle(u["pre"]) if False else None
            cands += [("(fold .arr 0 (+ (default .so_far 0) :index))", "(fold .arr 0 (+ (default .so_far 0) 3))"), ("(push [] :twin @twin :index @index)", '(push [] "t" (+ 1 1) 3 (size .))'),
                      ("(map .arr (push [] :index @twin))", "(map .arr (push [] 3 (+ 1 1)))"),
                      ('(push [] (set "index" 8 :index) :index)', "(push [] 8 3)"), ('(push [] (define "index" 8 @index) @index)', "(push [] 8 (size .))"),
                      ('(set "twin" 0 (set "index" 1 (push [] :twin :index @twin)))', "(push [] 0 1 (+ 1 1))")]
        for a, b in rng.sample(cands, rng.choice((1, 2, 3))):
            u["pairs"].append((a, b, False))
        return u
    if form == "preset-in-stage":
        # --set bindings hold in every option that takes an expression, not only in --select: the run with the binding is the
        # run with the value written out
        which = rng.choice(("split", "split-macro", "filter", "filter-macro", "sort", "group", "sort-macro"))
        tmpl = {"split": ("pv", '"%s"' % rng.choice(("arr", "objs", "strs")), "--split-by=(get . %s)"),
                "split-macro": ("@pm", rng.choice((".arr", ".objs", "(push [] . .)")), "--split-by=%s"),
                "filter": ("pv", rng.choice(("true", "3", '"a"')), "--filter=(= (default .b .i .s) %s)"),
                "filter-macro": ("@pm", "(number? .n)", "--filter=%s"),
                "sort": ("pv", '"%s"' % rng.choice(("n", "i", "s")), "--sort-by=(get . %s)"),
                "sort-macro": ("@pm", rng.choice((".n", "(size .arr)")), "--sort-by=%s DESC"),
                "group": ("pv", '"%s"' % rng.choice(("s", "u")), "--group-by=(get . %s)")}[which]
        name, val, stage = tmpl
        ref = ":pv" if name == "pv" else "@pm"
        tail = rng.choice(([], ["--select", ".i=i", "--select", ".n=n"], ["--unique"], ["--take", "3"]))
        if which == "group":
            tail = [t for t in tail if t not in ("--take", "3")]
        head = []
        if rng.random() < 0.35:
            # the rows come out of a split and pass another sorter first: they still carry the bindings
            head = ["--split-by=(push [] . .)"]
            tail = tail + ["--sort-by=.i"] if which in ("sort", "sort-macro", "group") else tail
        u["runs"] = [head + ["--set", "%s=%s" % (name, val), stage % ref] + tail, head + [stage % val] + tail]
        u["which"] = which
        return u
    if form == "pipe-parent":
        if rng.random() < 0.4:
            u["pre"] = ["--split-by=" + rng.choice([".objs", "(push [] .)"])]
        a = rng.choice([".n", ".i", ".s", ".arr", ".obj", ".b", "(abs .n)", ".strs", ".nas", "(size .arr)", ".", ".z"])
        k = rng.choice((1, 1, 2, 3))
        stages = []
        for _ in range(k):
            stages.append(rng.choice(IDENTITY_LIKE) if rng.random() < 0.7 else eg.show(g.gen(rng.choice(("num", "str", "any", "arr:num")), eg.Scope(allow_sel=False).push("any"))))
        u["a"], u["stages"] = a, stages
        return u
    if form == "computed-name":
        # (: E) / (get_variable E) with a name that is computed from the record (with a fallback that is a valid name, too):
        # the variable meant is the one whose name E yields for THIS record
        a, b = rng.sample(["v", "w", "acc", "x1"], 2)
        Va, Vb = rng.choice((10, "A", [1])), rng.choice((20, "B", {"k": 2}))
        name = "(default .which %s)" % jm.dumps(a)
        fn = rng.choice((":", "get_variable"))
        bound = "(set %s %s (set %s %s (%s %s)))" % (jm.dumps(a), jm.dumps(Va), jm.dumps(b), jm.dumps(Vb), fn, name)
        sub = "(? (= %s %s) %s (? (= %s %s) %s .nosuchfield))" % (name, jm.dumps(b), jm.dumps(Vb), name, jm.dumps(a), jm.dumps(Va))
        u["pairs"].append((bound, sub, False))
        if rng.random() < 0.5:
            u["pairs"].append(("(map (push [] 1 2) %s)" % bound.replace(".which", "^.which"), "(map (push [] 1 2) %s)" % sub.replace(".which", "^.which"), True))
        return u
    if form == "set-twin":
        # a variable re-bound to a value that jawk's equality cannot tell from the old one although it is not the same
        # (members in another order, 2^64-1 vs 2^64): the inner binding is the one in force
        V = rng.choice(({"a": 1, "b": 2}, {"x": {"p": 1, "q": [1, 2]}, "y": 2, "z": None}, [{"k": 1, "l": 2}], [2 ** 64 - 1, {"u": 1, "v": 2}], 2 ** 64 - 1))
        W = jm.twin(V)
        body = rng.choice(("(stringify :n)", "(keys :n)", ":n", "(push [] :n 1)", "(first (entries :n))", "(map (push [] 1 2) (stringify :n))"))
        lit = lambda v: jm.dumps(v)
        outer = rng.choice((None, "preset"))
        bound = "(set \"n\" %s (set \"n\" %s %s))" % (lit(V), lit(W), body)
        if outer == "preset":
            u["pre"] = ["--set", "n=" + lit(V)]
            bound = "(set \"n\" %s %s)" % (lit(W), body)
        u["pairs"].append((bound, body.replace(":n", lit(W)), False))
        return u
    if form == "recursive-macro":
        name, body, use = rng.choice(RECURSIVE)
        u["pre"] = ["--set", "@%s=%s" % (name, body)]
        u["pairs"].append((use, '(define "%s" %s %s)' % (name, body, use), True))
        if rng.random() < 0.5:
            u["pairs"].append(("(map (range 6) %s)" % use.replace(".i", "."), '(define "%s" %s (map (range 6) %s))' % (name, body, use.replace(".i", ".")), True))
        return u
    if form == "macro-late-var":
        # a macro whose body reads a variable that is only bound where the macro is used: each use has its own binding
        vk = rng.choice(("num", "str", "arr:num"))
        mk = rng.choice(("num", "str", "any", "arr:num", "bool"))
        M = g.gen(mk, eg.Scope(allow_sel=False).with_var("fv", vk).macro_body())
        if not any(n[0] == "var" and n[1] == "fv" for n in eg.walk(M)):
            M = ("call", "push", (("lit", []), ("var", "fv"), M))
        u["pre"] = ["--set", "@pm=" + eg.show(M)]
        for _ in range(rng.choice((2, 3))):
            V = g.lit(vk)
            u["pairs"].append((eg.show(("call", "set", (("lit", "fv"), V, ("macro", "pm")))),
                               eg.show(("call", "set", (("lit", "fv"), V, M))), False))
        if rng.random() < 0.5:
            u["pre"] = ["--split-by=" + rng.choice([".arr", ".objs"])] + u["pre"]
        return u
    base = eg.Scope(allow_sel=False)
    if form == "position-split":
        u["pre"] = ["--split-by=" + rng.choice([".arr", ".objs", ".strs", "(push [] .)"])]
        base = base.push(rng.choice(("any",)))
    outer_base = base
    for _ in range(rng.choice((1, 2, 3))):
        kind = rng.choice(eg.KINDS)
        # evaluate the binding inside a nested input (map / pipe / sort_by body), so that ^ reaches outside the binding
        wrap = None
        base = outer_base
        if form in ("set", "define") and rng.random() < 0.65:
            src_kind = rng.choice(("arr:num", "arr:obj", "arr:str"))
            src = g.gen(src_kind, outer_base)
            w = rng.choice(("map", "pipe", "filter-map"))
            base = outer_base.push(eg.ELEM[src_kind] if w != "pipe" else src_kind)
            wrap = (w, src)
        if form in ("set", "preset-var"):
            vk = rng.choice(("num", "str", "arr:num", "obj", "bool", "null", "arr:str"))
            V = g.lit(vk)
            name = "pv" if form == "preset-var" else rng.choice(eg.VARNAMES)
            E = body_with_parents(rng, g, base.with_var(name, vk), kind)
            if not any((n[0] == "var" and n[1] == name) or (n[0] == "call" and n[1] == ":" and n[2] == (("lit", name),)) for n in eg.walk(E)):
                E = ("call", "push", (("lit", []), ("var", name), E))
            sub = subst_var(E, name, V)
            if form == "set":
                bound = ("call", "set", (("lit", name), V, E))
                bound, sub = wrapped(wrap, bound), wrapped(wrap, sub)
                u["pairs"].append((eg.show(bound), eg.show(sub), uses_parent(E)))
            else:
                if not u["pre"]:
                    u["pre"] = ["--set", "pv=" + eg.show(V)]
                    u["V"] = V
                else:
                    sub = subst_var(E, name, u["V"])
                u["pairs"].append((eg.show(E), eg.show(sub), uses_parent(E)))
        elif form in ("define", "preset-macro"):
            mk = rng.choice(("num", "str", "arr:num", "bool", "any"))
            name = "pm" if form == "preset-macro" else rng.choice(eg.MACRONAMES)
            if form == "preset-macro" and u["pre"]:
                M = u["M"]
            else:
                M = body_with_parents(rng, g, base.macro_body(), mk)
            E = body_with_parents(rng, g, base.with_macro(name, mk), kind)
            if not any((n[0] == "macro" and n[1] == name) or (n[0] == "call" and n[1] == "@" and n[2] == (("lit", name),)) for n in eg.walk(E)):
                E = ("call", "push", (("lit", []), ("macro", name), E))
            sub = subst_macro(E, name, M)
            if form == "define":
                bound = ("call", "define", (("lit", name), M, E))
                bound, sub = wrapped(wrap, bound), wrapped(wrap, sub)
                u["pairs"].append((eg.show(bound), eg.show(sub), uses_parent(E) or uses_parent(M)))
            else:
                if not u["pre"]:
                    u["pre"] = ["--set", "@pm=" + eg.show(M)]
                    u["M"] = M
                u["pairs"].append((eg.show(E), eg.show(sub), uses_parent(E) or uses_parent(M)))
        else:
            E = body_with_parents(rng, g, base, kind)
            t = eg.show(E)
            u["pairs"].append((t, t, uses_parent(E)))
    u.pop("V", None)
    u.pop("M", None)
    return u


def run_pipe_parent(ctx, unit):
    """(| a b1 .. bk ^{j}) must be the value of (| a b1 .. b(k-j)) for j <= k and the pipe's own input for j = k+1."""
    st = ctx.stats
    a, stages = unit["a"], unit["stages"]
    k = len(stages)
    args = list(unit["pre"]) + ["--select", ".=x"]
    for i in range(k + 1):
        args.append("--select=%s=r%d" % (a if i == 0 else "(| %s %s)" % (a, " ".join(stages[:i])), i))
    for j in range(1, k + 2):
        args.append("--select=(| %s %s %s.)=c%d" % (a, " ".join(stages), "^" * j, j))
    o = ctx.drv.run(core.Case(args, unit["input"]))
    if o.result != "ok":
        st.count("skipped_configuration_error" if o.result in ("err", "clierr") else "skipped_" + o.result)
        return
    st.count("conclusive")
    try:
        rows = [jm.plain(r) for r in jm.read_rows(o.stdout)]
    except jm.JsonError:
        st.count("skipped_unreadable_output_is_C02")
        return
    for row in rows:
        full = "r%d" % k in row
        for j in range(1, k + 2):
            got = row.get("c%d" % j, "<absent>")
            want = "<absent>" if not full else row.get("x", "<absent>") if j == k + 1 else row.get("r%d" % (k - j), "<absent>")
            if jm.dumps(got) != jm.dumps(want):
                st.violation("pipe-parent:%d-stages" % (k + 1), "in (| %s %s %s.) the %d-th enclosing input is not the value of the corresponding stage" % (
                    a, " ".join(stages), "^" * j, j), unit, {"args": args, "row": row, "got": got, "want": want})
                return
            if got != "<absent>":
                st.count("present_pairs")
                st.see("nontrivial", ("pipe-parent", a, tuple(stages), j))
                if j <= k and jm.dumps(row.get("r%d" % (k - j + 1), 0)) == jm.dumps(row.get("r%d" % (k - j), 1)):
                    st.count("pipe_stage_returned_its_input")
    st.count("pairs_checked", (k + 1) * len(rows))


def run_unit(ctx, unit):
    st = ctx.stats
    if unit["form"] == "pipe-parent":
        return run_pipe_parent(ctx, unit)
    if unit["form"] == "preset-in-stage":
        oa, ob = ctx.drv.run_many([core.Case(a, unit["input"]) for a in unit["runs"]])
        if oa.result != "ok" or ob.result != "ok":
            if {oa.result, ob.result} & {"timeout", "abort"}:
                st.inconc("watchdog")
            elif oa.result != ob.result and "panic" not in (oa.result, ob.result):
                st.violation("binding-not-transparent:preset-in-stage:" + unit["which"], "with the --set binding: %s, with the value written out: %s" % (oa.result, ob.result),
                             unit, {"runs": unit["runs"], "errtext": oa.errtext[:200] + " / " + ob.errtext[:200]})
            else:
                st.count("skipped_configuration_error")
            return
        st.count("conclusive")
        st.count("pairs_checked")
        if oa.stdout != ob.stdout:
            st.violation("binding-not-transparent:preset-in-stage:" + unit["which"], "a --set binding used in a stage option is not the same as writing its value there",
                         unit, {"runs": unit["runs"], "with_binding": oa.stdout[:600], "written_out": ob.stdout[:600]})
            return
        if ob.stdout.strip():
            st.see("nontrivial", ("preset-in-stage", unit["which"], unit["runs"][1][0]))
            st.count("present_pairs")
        return
    if unit.get("long"):
        st.count("long_runs")
    args = list(unit["pre"])
    if unit.get("long"):
        # references to a macro and a variable nobody defined are legal (they yield nothing); hundreds of them come first
        args += ["--select", "(default @nosuchmacro :nosuchvariable 0)=u0"]
    pairs = unit["pairs"]
    if unit["form"].startswith("position"):
        # the same expression in each of 2-4 selects
        E = pairs[0][0]
        k = 2 + (len(E) % 3)
        names = ["p%d" % i for i in range(k)]
        for n in names:
            args.append("--select=%s=%s" % (E, n))
        cols = [(names[0], n, E, E, pairs[0][2]) for n in names[1:]]
    else:
        cols = []
        for i, (a, b, up) in enumerate(pairs):
            args += ["--select=%s=a%d" % (a, i), "--select=%s=b%d" % (b, i)]
            cols.append(("a%d" % i, "b%d" % i, a, b, up))
    case = core.Case(args, unit["input"])
    o = ctx.drv.run(case)
    if o.result != "ok":
        if o.result in ("timeout", "abort"):
            st.inconc("watchdog")
        elif o.result == "panic":
            st.count("skipped_panic_is_C05")
        elif unit["form"] in ("frame-names", "set-twin", "selected-under-binding", "computed-name", "recursive-macro", "define-in-macro"):
            # hand-written forms: every one of these configurations is valid (a variable and a macro may share a name, ...)
            st.violation("valid-bindings-rejected:" + unit["form"], "a valid configuration of bindings was rejected: %s" % o.errtext[:200], unit, {"args": args})
        else:
            st.count("skipped_configuration_error")
            st.see("config_errors", o.errtext[:80])
        return
    st.count("conclusive")
    try:
        rows = [jm.plain(r) for r in jm.read_rows(o.stdout)]
    except jm.JsonError:
        st.count("skipped_unreadable_output_is_C02")
        return
    for row in rows:
        for ca, cb, ta, tb, up in cols:
            va, vb = row.get(ca, "<absent>"), row.get(cb, "<absent>")
            if jm.dumps(va) != jm.dumps(vb):
                st.violation("binding-not-transparent:%s:%s" % (unit["form"], "parent" if up else "noparent"),
                             "%s: bound form and substituted form differ" % unit["form"], unit,
                             {"args": args, "bound": ta, "substituted": tb, "bound_value": va, "substituted_value": vb, "row": row})
                return
            if va != "<absent>":
                st.see("nontrivial", (unit["form"], up, ta))
                st.count("present_pairs")
            else:
                st.count("absent_pairs")
    st.count("pairs_checked", len(cols) * len(rows))


def worker(ctx):
    st = ctx.stats
    for i in range(ctx.params["units_per_worker"]):
        if ctx.expired():
            st.count("stopped_by_deadline")
            break
        unit = gen_unit(ctx.rng)
        run_unit(ctx, unit)
        st.count("units")
        st.count("form_" + unit["form"])
        if i < 3 and ctx.idx == 0:
            st.sample({"form": unit["form"], "pre": unit["pre"], "pairs": [p[:2] for p in unit["pairs"]][:2]})


def run(env):
    quick = env.tier == "quick"
    stats = core.run_workers(__name__, "worker", PROP, env.tier, env.seed, env.driver, env.hooks_on,
                             45 if quick else 600, {"units_per_worker": 2500 if quick else 60000})
    return core.finish(PROP, env.tier, env.seed, LEVEL, stats, env.t0, RULE, min_conclusive=5000 if quick else 60000,
                       assumptions=["substitution is done on the AST by the harness (stops at shadowing binders); macro bodies contain no free macro references",
                                    "pipes are compared with the reference evaluator in C04; here only binding transparency and select position"])


def replay(env, unit):
    return replay_unit(env, run_unit, unit)
