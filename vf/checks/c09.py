"""C09 --group-by / --merge emit exactly one complete collection at end of input.

Differential oracle: rows R printed by the same pipeline without --group-by/--merge; expected = one object
{first-seen string key -> [rows in arrival order]} / one array R, exactly one output row, also when R is empty.
"""
from .. import core, jsonmodel as jm, records
from ..main import replay_unit

PROP = "C09"
LEVEL = "exploration"
RULE = ("random histories of 0-40 records with group keys over {strings incl. '' and non-ASCII and escapes, numbers, null, absent} x upstream "
        "{select, filter, unique, sort, skip/take, split} x {json styles, text}; distinct_nontrivial = distinct (key-type pattern, upstream "
        "pattern, mode) with at least one surviving row")


def gen_unit(rng):
    if rng.random() < 0.03:
        # the rows are strings and the key is the row itself: `.` is a selection like any other
        vals = [rng.choice(["a", "b", "", "k\"q", "\u00e9 x", "src", "vf", 5, None, ["a"], {"a": 1}]) for _ in range(rng.choice((0, 1, 3, 8, 20)))]
        return {"input": records.to_input(vals, rng), "args": rng.choice(([], ["--unique"], ["--filter", "(string? .)"], ["--take", "5"])), "out": rng.choice([[], ["--style", "consise"]]),
                "upstream": ["dot-key"], "mode": "group", "keycol": None, "groupexpr": rng.choice((".", ".", "(default . 1)", "(| . .)"))}
    if rng.random() < 0.04:
        # the group key comes from the record the row was split from (`^`), with sorters between the split and the collector:
        # the row carries its chain of enclosing inputs as far as the last stage
        recs = records.gen_records(rng, n=rng.choice((2, 5, 9, 14)))
        for i, r in enumerate(recs):
            r["subs"] = [{"n": rng.randint(0, 9), "i": i * 10 + j} for j in range(rng.choice((0, 1, 2, 3)))]
        args = ["--split-by", ".subs", "--select", "^.g=g", "--select", ".n=n", "--select", ".i=i"]
        for _ in range(rng.choice((0, 1, 1, 2))):
            args += ["--sort-by", rng.choice([".n", ".i=DESC", "^.s", "^.k=DESC", "(+ .n ^.s)"])]
        if rng.random() < 0.3:
            args += ["--take", str(rng.choice((3, 10, 2 ** 64 - 1)))]
        return {"input": records.to_input(recs, rng), "args": args, "out": rng.choice([[], ["--style", "consise"]]), "upstream": ["parent-key", "split"] + (["sort"] if "--sort-by" in args else []),
                "mode": rng.choice(("group", "group", "merge")), "keycol": "g", "groupexpr": "^.g"}
    recs = records.gen_records(rng, n=rng.choice((65, 66, 130, 200, 333)) if rng.random() < 0.03 else None)
    for r in recs:
        if rng.random() < 0.3:
            r["subs"] = [{"g": rng.choice(records.GROUP_UNIVERSE[:6]), "n": i} for i in range(rng.choice((0, 1, 2, 3)))]
    if rng.random() < 0.15:
        # two different rows whose members read the same when nesting is ignored (an empty object followed by a sibling / the
        # sibling moved inside): stages that remember rows must keep them apart
        base = {"g": rng.choice(records.GROUP_UNIVERSE[:4]), "k": rng.choice(("a", "b")), "v": rng.choice((0, 1, "x"))}
        pair = [dict(base, a={}, b=1), dict(base, a={"b": 1})]
        if rng.random() < 0.5:
            pair.reverse()
        for x in pair:
            recs.insert(rng.randint(0, len(recs)), x)
    args = []
    up = []
    r = rng.random()
    if r < 0.12:
        args += ["--set", "one=1"]
        up.append("set-var")
    elif r < 0.2:
        args += ["--set", "@m=(len .)", "--set", "two=2"]
        up.append("set-macro")
    if rng.random() < 0.1:
        args += ["--only-objects-and-arrays"]
        up.append("only_oa")
    if rng.random() < 0.25:
        args += ["--split-by", rng.choice([".subs", ".arr"])]
        up.append("split")
    if rng.random() < 0.3:
        args += ["--filter", rng.choice(["(string? .g)", "(not (null? .v))", "(< .s 7)", "(number? .n)", "false"])]
        up.append("filter")
    keycol = "g"
    r2 = rng.random()
    if r2 < 0.08:
        # two selections share a name (the row holds the later one): the collected rows are the printed rows all the same
        args += ["--select", ".k=dup", "--select", ".g=g", "--select", ".v=dup"]
        up.append("select-dupname")
    elif r2 < 0.16:
        # a selected column carries the name of the member the group key is read from, with another value: the key is the
        # input's .g (printed here as column "key"), whatever the columns are called
        args += ["--select", ".g=key", "--select", ".v=g"]
        keycol = "key"
        up.append("select-shadows-key")
    elif r2 < 0.5:
        args += ["--select", ".g=g", "--select", ".k=k"]
        up.append("select")
        if rng.random() < 0.5:
            args += ["--select", ".s=s"]
        if rng.random() < 0.5:
            args += ["--unique"]
            up.append("unique")
    elif rng.random() < 0.2:
        args += ["--unique"]
        up.append("unique")
    for _ in range(rng.choice((0, 0, 1, 2))):
        args += ["--sort-by", rng.choice([".k", ".k=DESC", ".v", ".g DESC", ".s=DESC", ".n"])]
        up.append("sort")
    if rng.random() < 0.3:
        args += ["--skip", str(rng.randint(0, 4))]
        up.append("skip")
    if rng.random() < 0.3:
        args += ["--take", str(rng.choice((0, 1, 2, 5, 50, 2 ** 64 - 1, 2 ** 63, 2 ** 63 - 1, 10 ** 15)))]
        up.append("take")
    out = rng.choice([[], [], ["--style", "consise"], ["--style", "pretty"], ["-o", "text"]])
    tail = b""
    if rng.random() < 0.1:
        # the input ends inside a value (a cut-off log line): that value is noise, the rows before it are collected as usual
        tail = b" " + rng.choice([b'{"g":"a","k":', b'[1, 2', b'"unterminated', b'{"g"', b"tru", b'{"g":"b","v":1,'])
        up.append("cut-off-tail")
    unit = {"input": records.to_input(recs, rng) + tail, "args": args, "out": out, "upstream": sorted(set(up)),
            "mode": rng.choice(["group", "group", "merge"]), "keycol": keycol}
    if rng.random() < 0.25:
        # the same records given as 1-3 files (cut between records) instead of stdin
        texts = [jm.dumps(r).encode() for r in recs]
        nf = rng.choice((1, 2, 2, 3))
        bounds = [0] + sorted(rng.randint(0, len(texts)) for _ in range(nf - 1)) + [len(texts)]
        unit["pieces"] = [b"\n".join(texts[bounds[i]:bounds[i + 1]]) for i in range(nf)]
    return unit


def run_unit(ctx, unit):
    st = ctx.stats
    gargs = unit["args"] + (["--group-by", unit.get("groupexpr", ".g")] if unit["mode"] == "group" else ["--merge"]) + unit["out"]
    if unit.get("pieces"):
        files = [("q%d.json" % (len(unit["pieces"]) - i), p) for i, p in enumerate(unit["pieces"])]
        fargs = ["@D@/" + n for n, _ in files]
        base = core.Case(fargs + unit["args"], b"", files=files)
        gcase = core.Case(fargs + gargs, b"", files=files)
        st.count("units_delivered_as_files")
    else:
        base = core.Case(unit["args"], unit["input"])
        gcase = core.Case(gargs, unit["input"])
    extra = []
    if "unique" in unit["upstream"] and not {"take", "skip", "sort"} & set(unit["upstream"]):
        # the rows that survive --unique are the first occurrences among the rows of the same pipeline without it
        nargs = [a for a in unit["args"] if a != "--unique"]
        extra = [core.Case(fargs + nargs, b"", files=files) if unit.get("pieces") else core.Case(nargs, unit["input"])]
    obs = ctx.drv.run_many([base, gcase] + extra)
    o0, o1 = obs[0], obs[1]
    for c, o in zip([base, gcase] + extra, obs):
        if o.result != "ok":
            if o.result in ("timeout", "abort"):
                st.inconc("watchdog")
                return
            st.violation("result:" + o.result, "run failed: %s %s" % (o.errtext, o.panicinfo), unit, {"args": c.args, "obs": o.brief()})
            return
    st.count("conclusive")
    R = [jm.plain(r) for r in jm.read_rows(o0.stdout)]
    if extra:
        seen, firsts = set(), []
        for r in jm.read_rows(obs[2].stdout):
            t = jm.dumps(jm.plain(r))
            if t not in seen:
                seen.add(t)
                firsts.append(jm.plain(r))
        st.count("unique_survivors_checked")
        # (not behind a sort: its keys are read from the input value, not from the printed row, and rows without a key are dropped)
        if firsts != R:
            st.violation("survivors-of-unique", "the rows behind --unique are not the first occurrences of the rows without it (%d vs %d rows)" % (len(R), len(firsts)),
                         unit, {"args": unit["args"], "rows": R[:8], "first_occurrences": firsts[:8]})
            return
    if unit["mode"] == "merge":
        want = R
    else:
        want = {}
        dropped = 0
        for r in R:
            k = r if unit.get("groupexpr") and unit.get("keycol") is None else r.get(unit.get("keycol", "g")) if isinstance(r, dict) else None
            if isinstance(k, str):
                want.setdefault(k, []).append(r)
            else:
                dropped += 1
        if dropped:
            st.count("rows_dropped_for_non_string_key", dropped)
    try:
        rows = jm.read_rows(o1.stdout)
    except jm.JsonError as e:
        st.violation("unreadable", "group/merge output is not one JSON text per row: %s" % e, unit, {"stdout": o1.stdout[:600]})
        return
    got = [jm.plain(r) for r in rows]
    if len(got) != 1:
        st.violation("not-exactly-one-collection", "%d rows emitted by --%s (input rows: %d)" % (len(got), unit["mode"], len(R)), unit,
                     {"args": gargs, "stdout": o1.stdout[:600]})
        return
    g = got[0]
    ok = (g == want)
    if ok and isinstance(want, dict):
        ok = list(g.keys()) == list(want.keys())
    if ok:
        # member order inside rows
        flat_w = want if isinstance(want, list) else [r for rs in want.values() for r in rs]
        flat_g = g if isinstance(g, list) else [r for rs in g.values() for r in rs]
        ok = all((list(a.keys()) == list(b.keys())) if isinstance(a, dict) and isinstance(b, dict) else True for a, b in zip(flat_w, flat_g))
    if not ok:
        st.violation("collection-mismatch:" + unit["mode"], "--%s output is not the collection of the rows the ungrouped pipeline prints" % unit["mode"],
                     unit, {"args": gargs, "rows": R[:10], "expected": want if isinstance(want, list) else dict(list(want.items())[:5]), "got": g})
        return
    if not R:
        st.count("empty_collections_emitted")
    if R:
        ktypes = tuple(sorted(set(jm.classify(r.get("g")) if isinstance(r, dict) and "g" in r else "absent" for r in R)))
        st.see("nontrivial", (ktypes, tuple(unit["upstream"]), unit["mode"], tuple(unit["out"])))
    if "take" in unit["upstream"] or "skip" in unit["upstream"]:
        st.count("with_limits")


def worker(ctx):
    st = ctx.stats
    for i in range(ctx.params["units_per_worker"]):
        if ctx.expired():
            st.count("stopped_by_deadline")
            break
        unit = gen_unit(ctx.rng)
        run_unit(ctx, unit)
        st.count("units")
        if i < 1 and ctx.idx < 2:
            st.sample({"args": unit["args"], "mode": unit["mode"], "out": unit["out"], "input": unit["input"][:200].decode("utf-8", "replace")})


def run(env):
    quick = env.tier == "quick"
    stats = core.run_workers(__name__, "worker", PROP, env.tier, env.seed, env.driver, env.hooks_on,
                             40 if quick else 500, {"units_per_worker": 6000 if quick else 40000})
    return core.finish(PROP, env.tier, env.seed, LEVEL, stats, env.t0, RULE, min_conclusive=1000 if quick else 10000,
                       assumptions=["the group key .g is read from the printed row (pipelines either print the input or select .g=g)",
                                    "text output of an object is its concise JSON text"])


def replay(env, unit):
    return replay_unit(env, run_unit, unit)
