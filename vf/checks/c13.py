"""C13 An expression means the same in every position, alias, spelling and cache size.

Metamorphic oracles between runs of the same build (no model):
 spelling : canonical text vs (random alias, comma/space/padded separators, (.f x) sugar, re-spelt literals) as two columns of one run;
 filter   : rows kept by --filter E  ==  rows whose --select E column is exactly true;
 sort     : --sort-by E  ==  --sort-by /c/ after --select E=c   (and with DESC);
 group    : --group-by E ==  --group-by /c/ after --select E=c;
 split    : elements printed by --split-by E == the arrays of column E, flattened;
 macro    : --set @m=E --select @m  ==  --select E; the records in the opposite order give the same values in the opposite order;
 cache    : outputs under --regular-expression-cache-size 0, 1, 2, 64 over (subject, pattern) histories are identical.
"""
from .. import core, exprgen as eg, jsonmodel as jm
from ..main import replay_unit

PROP = "C13"
LEVEL = "exploration"
RULE = ("generated expressions (C04 grammar, no /name/ or & inside) on 1-12 generated inputs, compared across the five option positions, all "
        "aliases of every function, separator/sugar variants and four regex cache sizes with repeating/alternating patterns; distinct_nontrivial = "
        "distinct (relation, expression text) pairs whose column is present for at least one input")

MODES = ("spelling", "spelling", "spelling", "filter", "sort", "group", "split", "macro", "cache")
PATTERNS = ["a", "^a", "b$", "[a-c]+", "(a)(b)?", "x|y", "[0-9]+", "h(el+)o", "é", "(", "a.c",
            # patterns whose compiled program is large (counted repetition of a Unicode class), and one that is too large for any limit
            "^\\w{32}$", "id=(\\w{40});", "[a-z]{500}", "(?i)héllo", "\\d{3}-\\d{4}", "^$", ".*"]
HEAVY = ("^\\w{32}$", "id=(\\w{40});")


def plain_scope():
    return eg.Scope(allow_sel=False)


def force_alias_expr(rng, g):
    """An expression whose top call is a function that has aliases (so every alias gets exercised)."""
    name = rng.choice([n for n in eg.PURE if eg.ALIASES.get(n)])
    kinds = eg.KINDS
    for _ in range(30):
        e = g.gen(rng.choice(kinds), plain_scope())
        if name in eg.functions_in(e):
            return e
    return g.gen(rng.choice(kinds), plain_scope())


def gen_unit(rng):
    mode = rng.choice(MODES)
    g = eg.Gen(rng, ill_typed=0.08, maxdepth=3)
    inputs = [eg.gen_input(rng) for _ in range(rng.choice((1, 3, 6, 12)))]
    if mode == "macro" and rng.random() < 0.06:
        # hundreds of sparse records first (most expressions find nothing in them), then the ordinary ones: a macro is worth
        # what the expression is worth in place, however often it came up empty before
        inputs = [{"zz": i} if i % 50 else {} for i in range(rng.choice((260, 300, 520, 700)))] + inputs
    u = {"mode": mode, "input": "\n".join(jm.dumps(v) for v in inputs).encode()}
    if mode == "spelling":
        exprs = [force_alias_expr(rng, g) if rng.random() < 0.6 else g.gen(rng.choice(eg.KINDS), plain_scope()) for _ in range(4)]
        u["pairs"] = [(eg.show(e), eg.show(e, rng, True)) for e in exprs]
        u["aliases"] = sorted({w for _, t in u["pairs"] for w in t.replace("(", " ").replace(")", " ").replace(",", " ").replace(".", " ").split() if w in eg.ALIAS_OF})
    elif mode == "cache":
        hist = []
        pats = rng.sample(PATTERNS, rng.choice((1, 2, 3)))
        collide = None
        if rng.random() < 0.15:
            # two different patterns that common 32-bit string hashes cannot tell apart (FNV-1a, FNV-1, the 31-multiplier hash):
            # a cache may hash its keys, it may not confuse them
            collide = rng.choice((("mcfpmlno", "ikxnxfbz"), ("costarring", "liquid"), ("declinate", "macallums"), ("altarage", "zinke"), ("Aa", "BB"), ("AaAa", "BBBB"), ("AaBB", "BBAa")))
            pats = list(collide)
        for _ in range(rng.choice((2, 5, 12, 40)) if not any(p in HEAVY for p in pats) else rng.choice((2, 3, 5))):
            hist.append({"s": rng.choice(eg.WORDS + eg.NONASCII + ["hello", "hellllo", "abc", "123", "0123456789abcdef0123456789abcdef", "id=" + "x" * 40 + ";",
                                                                   "555-1234", "HÉLLO", "z" * 120] + (list(collide) * 6 if collide else [])), "p": rng.choice(pats)})
        u["input"] = "\n".join(jm.dumps(v) for v in hist).encode()
        u["npatterns"] = len(pats)
    else:
        kind = {"filter": "bool", "sort": rng.choice(("num", "str", "any")), "group": "str", "split": rng.choice(("arr:num", "arr:str", "arr:obj")),
                "macro": rng.choice(eg.KINDS)}[mode]
        sc = plain_scope()
        u["pre"] = []
        if mode != "split" and rng.random() < 0.4:
            # the same comparison on the elements of a split record: the expression may then reach the record through ^
            src, ek = rng.choice(((".objs", "eobj"), (".arr", "num"), (".strs", "str"), ("(push [] .)", "rec")))
            u["pre"] = ["--split-by=" + src]
            sc = sc.push(ek)
        if mode in ("sort", "group", "filter") and rng.random() < 0.4:
            # the expression may read a variable set on the command line; in sort/group mode a further, constant sort key
            # (which runs first and changes nothing) lies between the input and the place where the expression is evaluated
            u["pre"] = u["pre"] + ["--set", "gv=" + rng.choice(("5", "\"s\"", "[1,2]"))]
            sc = sc.with_var("gv", "any")
            u["extra_sort"] = mode != "filter" and rng.random() < 0.7
        if mode == "macro":
            sc = sc.macro_body()
            if rng.random() < 0.4:
                sc = sc.with_var("lv", "num")       # bound differently at each place of use (see run_unit)
                u["late_var"] = True
        e = g.gen(kind, sc)
        if u["pre"]:
            from .c12 import uses_parent
            for _ in range(8):
                if uses_parent(e):
                    break
                e = g.gen(kind, sc)
            u["uses_parent"] = uses_parent(e)
        u["expr"] = eg.show(e)
        # in the other option the same expression is written in another spelling (aliases, commas, padding, leading-dot sugar):
        # an option that pre-processes its value (splits it at commas, trims it, ...) shows up here
        u["expr_v"] = eg.show(e, rng, True) if rng.random() < 0.6 else u["expr"]
        u["desc"] = rng.random() < 0.4
    u["funcs"] = sorted(g.used)
    return u


def rng_choice_col(unit):
    return (".b", ".s", ".z", ".i", "(number? .n)")[len(unit["expr"]) % 5]


def rows_of(o):
    return [jm.plain(r) for r in jm.read_rows(o.stdout)]


def run_unit(ctx, unit):
    st = ctx.stats
    mode = unit["mode"]
    data = unit["input"]

    def run(cases):
        obs = ctx.drv.run_many(cases)
        kinds = set(o.result for o in obs)
        if kinds != {"ok"}:
            if kinds & {"timeout", "abort"}:
                st.inconc("watchdog")
            elif "panic" in kinds:
                st.count("skipped_panic_is_C05")
            elif len(kinds) > 1:
                # the same expression is accepted in one position / spelling and rejected in another
                bad = [(c.args, o.result, o.errtext[:200]) for c, o in zip(cases, obs)]
                st.violation("accepted-vs-rejected:" + mode, "the same expression is accepted in one form and rejected in another", unit, {"runs": bad})
            else:
                st.count("skipped_configuration_error")
            return None
        return obs

    def bad(sig, msg, detail):
        st.violation(sig, msg, unit, detail)

    if mode == "spelling":
        args = []
        for i, (a, b) in enumerate(unit["pairs"]):
            args += ["--select=%s=a%d" % (a, i), "--select=%s=b%d" % (b, i)]
        obs = run([core.Case(args, data)])
        if obs is None:
            # decide which column is rejected: canonical alone must then be rejected too
            for i, (a, b) in enumerate(unit["pairs"]):
                oa, ob = ctx.drv.run_many([core.Case(["--select=" + a + "=x"], data), core.Case(["--select=" + b + "=x"], data)])
                if {oa.result, ob.result} == {"ok", "err"}:
                    # run() above already reported nothing (single run): report here
                    st.violation("accepted-vs-rejected:spelling", "canonical and variant spelling differ in acceptance", unit,
                                 {"canonical": a, "variant": b, "canonical_result": oa.result + " " + oa.errtext[:200], "variant_result": ob.result + " " + ob.errtext[:200]})
                    return
            return
        st.count("conclusive")
        for row in rows_of(obs[0]):
            for i, (a, b) in enumerate(unit["pairs"]):
                va, vb = row.get("a%d" % i, "<absent>"), row.get("b%d" % i, "<absent>")
                if jm.dumps(va) != jm.dumps(vb):
                    bad("spelling-changes-value", "alias / separator / sugar variant evaluates differently", {"canonical": a, "variant": b, "a": va, "b": vb})
                    return
                if va != "<absent>":
                    st.see("nontrivial", ("spelling", a))
        for al in unit["aliases"]:
            st.see("aliases_exercised", al)
        st.count("spelling_pairs", len(unit["pairs"]))
        return
    if mode == "cache":
        args = ["--select", "(match .s .p)=m", "--select", "(extract_regex_group .s .p 0)=g0", "--select", "(extract_regex_group .s .p 1)=g1",
                "--select", "(filter [\"a\", \"hello\", \"x9\"] (match . ^.p))=f"]
        sizes = (0, 1, 2, 64)
        obs = run([core.Case(args + ["--regular-expression-cache-size", str(n)], data) for n in sizes])
        if obs is None:
            return
        st.count("conclusive")
        for n, o in zip(sizes, obs):
            if o.stdout != obs[0].stdout:
                bad("cache-size-changes-output", "output differs between regex cache sizes 0 and %d" % n, {"size0": obs[0].stdout[:600], "other": o.stdout[:600]})
                return
            h = (o.hooks or {}).get("regex")
            if h:
                st.count("cache%d_hits" % n, h["hits"])
                st.count("cache%d_misses" % n, h["misses"])
                if n in (1, 2) and h["misses"] > unit["npatterns"]:
                    st.count("runs_with_evictions_size%d" % n)
        st.see("nontrivial", ("cache", hash(data) & 0xFFFFFF))
        return
    e = unit["expr"]
    ev = unit.get("expr_v", e)
    pre = unit.get("pre", [])
    if pre:
        st.count("position_comparisons_under_split")
        if unit.get("uses_parent"):
            st.count("position_comparisons_reaching_parent")
    if mode == "filter":
        obs = run([core.Case(pre + ["--select=" + e + "=c", "--select", ".=v"], data), core.Case(pre + ["--filter=" + ev], data)])
        if obs is None:
            return
        st.count("conclusive")
        want = [r.get("v", "<absent>") for r in rows_of(obs[0]) if r.get("c") is True]
        got = rows_of(obs[1])
        if [jm.dumps(x) for x in want] != [jm.dumps(x) for x in got]:
            bad("filter-vs-select", "--filter E keeps other rows than those whose column E is true", {"expr": e, "want": want[:6], "got": got[:6]})
            return
        if want:
            st.see("nontrivial", ("filter", e))
    elif mode in ("sort", "group"):
        opt = "--sort-by" if mode == "sort" else "--group-by"
        d = " DESC" if (unit["desc"] and mode == "sort") else ""
        tail = ["--sort-by=(null? .nosuchfield)"] if unit.get("extra_sort") else []
        # (a column may be called anything that holds no `/` and no `=`: /name/ is that name, character for character)
        cn = ("c", "c", "a\\b", "x y", "\u00e9", "a.b", "c", "1", "(c)", "\\", "a\\|b", ":v", "@m", "#0", "^")[len(e) % 15]
        obs = run([core.Case(pre + ["--select=" + e + "=" + cn, "--select", ".=v", opt + "=" + ev + d] + tail, data),
                   core.Case(pre + ["--select=" + e + "=" + cn, "--select", ".=v", opt + "=/" + cn + "/" + d], data)])
        if obs is None:
            return
        st.count("conclusive")
        if obs[0].stdout != obs[1].stdout:
            bad(mode + "-vs-select", "%s E differs from %s /c/ where c is the selected column E" % (opt, opt),
                {"expr": e, "by_expr": obs[0].stdout[:600], "by_column": obs[1].stdout[:600]})
            return
        if len(obs[0].stdout) > 4:
            st.see("nontrivial", (mode, e))
        if mode == "sort":
            # the same, with only a low-cardinality column selected: consecutive rows then often carry equal selected values
            # while the sort expression (which reads the input, not the selection) differs
            narrow = rng_choice_col(unit)
            obs = run([core.Case(pre + ["--select=" + narrow + "=s", opt + "=" + ev + d], data),
                       core.Case(pre + ["--select=" + narrow + "=s", "--select=" + e + "=c", opt + "=/c/" + d], data)])
            if obs is None:
                return
            a = [jm.dumps(r.get("s", "<absent>")) for r in rows_of(obs[0])]
            b = [jm.dumps(r.get("s", "<absent>")) for r in rows_of(obs[1])]
            if a != b:
                bad("sort-vs-select-narrow", "--sort-by E orders the rows differently from --sort-by /c/ (c = E) when only another column is selected",
                    {"expr": e, "column": narrow, "by_expr": a[:12], "by_column": b[:12]})
                return
            st.count("narrow_sort_comparisons")
    elif mode == "split":
        obs = run([core.Case(["--select=" + e + "=c"], data), core.Case(["--split-by=" + ev], data)])
        if obs is None:
            return
        st.count("conclusive")
        want = []
        for r in rows_of(obs[0]):
            c = r.get("c")
            if isinstance(c, list):
                want += c
        got = rows_of(obs[1])
        if [jm.dumps(x) for x in want] != [jm.dumps(x) for x in got]:
            bad("split-vs-select", "--split-by E does not print the elements of column E", {"expr": e, "want": want[:8], "got": got[:8]})
            return
        if want:
            st.see("nontrivial", ("split", e))
    elif mode == "macro" and unit.get("late_var"):
        # the expression reads :lv, bound to another value at each place of use; as a --set macro it must follow the binding
        inline = ["--select=(set \"lv\" 1 %s)=a" % e, "--select=(set \"lv\" 2 %s)=b" % e, "--select=(set \"lv\" [3] %s)=c" % e]
        viamacro = ["--set", "@mm=" + e, "--select=(set \"lv\" 1 @mm)=a", "--select=(set \"lv\" 2 @mm)=b", "--select=(set \"lv\" [3] @mm)=c"]
        obs = run([core.Case(pre + inline, data), core.Case(pre + viamacro, data)])
        if obs is None:
            return
        st.count("conclusive")
        if obs[0].stdout != obs[1].stdout:
            bad("macro-vs-select-late-binding", "the expression evaluates differently as a --set macro when a variable it reads is bound at the place of use",
                {"expr": e, "inline": obs[0].stdout[:500], "macro": obs[1].stdout[:500]})
            return
        if b'"a"' in obs[0].stdout:
            st.see("nontrivial", ("macro-late", e))
        st.count("late_binding_macro_comparisons")
    elif mode == "macro":
        obs = run([core.Case(pre + ["--select=" + e + "=c"], data), core.Case(pre + ["--set", "@mm=" + e, "--select", "@mm=c"], data),
                   core.Case(pre + ["--select", "(define \"mm\" %s @mm)=c" % e], data),
                   core.Case(pre + ["--select", ".=first", "--select=" + e + "=c"], data)] +
                  # the records in the opposite order: what a record evaluates to does not depend on the records before it
                  ([core.Case(pre + ["--select=" + e + "=c"], b"\n".join(reversed(data.split(b"\n"))))] if not any(a.startswith("--split-by") for a in pre) else []))
        if obs is None:
            return
        st.count("conclusive")
        if len(obs) > 4:
            st.count("record_order_comparisons")
            fwd, rev = rows_of(obs[0]), rows_of(obs[4])
            if [jm.dumps(r) for r in fwd] != [jm.dumps(r) for r in reversed(rev)]:
                bad("depends-on-earlier-records", "the expression evaluates differently for a record when the records arrive in the opposite order",
                    {"expr": e, "pre": pre, "forward": obs[0].stdout[:500], "reversed": obs[4].stdout[:500]})
                return
        later = [dict((k, v) for k, v in r.items() if k != "first") for r in rows_of(obs[3])]
        if [jm.dumps(r) for r in later] != [jm.dumps(r) for r in rows_of(obs[0])]:
            bad("select-position", "the expression evaluates differently in a --select that follows another --select",
                {"expr": e, "pre": pre, "first_select": obs[0].stdout[:500], "second_select": obs[3].stdout[:500]})
            return
        if obs[0].stdout != obs[1].stdout or obs[0].stdout != obs[2].stdout:
            bad("macro-vs-select", "the expression evaluates differently as a macro", {"expr": e, "direct": obs[0].stdout[:500], "preset_macro": obs[1].stdout[:500],
                                                                                      "define": obs[2].stdout[:500]})
            return
        if b'"c"' in obs[0].stdout:
            st.see("nontrivial", ("macro", e))
    st.count("position_comparisons")


def worker(ctx):
    st = ctx.stats
    for i in range(ctx.params["units_per_worker"]):
        if ctx.expired():
            st.count("stopped_by_deadline")
            break
        unit = gen_unit(ctx.rng)
        run_unit(ctx, unit)
        st.count("units")
        st.count("mode_" + unit["mode"])
        if i < 3 and ctx.idx == 0:
            st.sample({k: (v[:150].decode("utf-8", "replace") if isinstance(v, bytes) else v) for k, v in unit.items() if k != "funcs"})


def run(env):
    quick = env.tier == "quick"
    stats = core.run_workers(__name__, "worker", PROP, env.tier, env.seed, env.driver, env.hooks_on,
                             90 if quick else 900, {"units_per_worker": 1500 if quick else 40000})
    extra = {"aliases_total": sum(len(v) for k, v in eg.ALIASES.items() if k in eg.PURE),
             "aliases_exercised": len(stats.sets.get("aliases_exercised", ()))}
    return core.finish(PROP, env.tier, env.seed, LEVEL, stats, env.t0, RULE, min_conclusive=3000 if quick else 40000, extra=extra,
                       assumptions=["only relations between runs of the same build are checked: a defect affecting all positions identically is C04's business"])


def replay(env, unit):
    return replay_unit(env, run_unit, unit)
