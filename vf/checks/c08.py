"""C08 --skip/--take pick exactly rows S..S+T-1 of the unlimited result, always.

Differential oracle between runs of the same build: rows R of pipeline P without limits (and without group/merge);
the run with --skip S --take T must print exactly R[S:S+T]; with --group-by/--merge it must print the one collection
built from exactly R[S:S+T].  No expression model is involved.
"""
import itertools

from .. import core, jsonmodel as jm, records
from ..main import replay_unit

PROP = "C08"
LEVEL = "exploration"
RULE = ("(1) exhaustive: every stream of length <= L over 4 keys (records carry a unique serial) x S in 0..6 x T in {absent,0..6} x 24 "
        "pipelines (8 sort-key variants x {plain, group-by, merge}); L = 4 quick, 5 thorough; (2) random histories <= 40 rows with "
        "unique/filter/split/select and 0-3 sort keys. distinct_nontrivial = distinct (stream, pipeline, S, T) with at least one "
        "row dropped by the limits")

SORTS = [
    [],
    [".k"],
    [".k=DESC"],
    [".k", ".s=DESC"],
    [".k=DESC", ".s"],
    ["1"],
    ["1", ".k DESC"],
    [".s=DESC"],
]
MODES = ["plain", "group", "merge"]
KEYS4 = ["a", "b", 1, None]


def pipeline_args(sorts, extra):
    a = []
    for s in sorts:
        a += ["--sort-by", s]
    return a + list(extra)


def limit_args(S, T):
    a = []
    if S:
        a += ["--skip", str(S)]
    if T is not None:
        a += ["--take", str(T)]
    return a


def expected_for(rows, S, T, mode, groupkey="k"):
    sl = rows[S:] if T is None else rows[S:S + T]
    if mode == "plain":
        return sl
    if mode == "merge":
        return [sl]
    g = {}
    for r in sl:
        k = r.get(groupkey) if isinstance(r, dict) else None
        if isinstance(k, str):
            g.setdefault(k, []).append(r)
    return [g]


def judge(ctx, unit, data, base_args, combos, pieces=None):
    """combos: list of (S, T, mode).  Runs the unlimited pipeline once and each combo once.
    pieces: None = the input arrives on stdin; else a list of byte strings given to jawk as that many files (cut between
    records), which must not change anything."""
    st = ctx.stats
    if pieces:
        files = [("p%d.json" % (len(pieces) - i), p) for i, p in enumerate(pieces)]      # given order != lexicographic order
        fargs = ["@D@/" + n for n, _ in files]
        st.count("units_delivered_as_files")

        def mk(a):
            return core.Case(fargs + list(a), b"", files=files)
    else:
        def mk(a):
            return core.Case(a, data)
    base = mk(base_args)
    cases = [base]
    for S, T, mode in combos:
        a = list(base_args) + limit_args(S, T)
        if mode == "group":
            a += ["--group-by", "." + unit.get("groupkey", "k")]
        elif mode == "merge":
            a += ["--merge"]
        cases.append(mk(a))
    obs = ctx.drv.run_many(cases)
    for c, o in zip(cases, obs):
        if o.result != "ok":
            if o.result in ("timeout", "abort"):
                o2, ok = ctx.drv.confirm(c, o)
                if not ok:
                    st.inconc("watchdog")
                    return False
            st.violation("result:" + o.result, "run failed: %s %s" % (o.errtext, o.panicinfo), dict(unit, focus=c.args),
                         {"args": c.args, "obs": o.brief()})
            return False
    try:
        R = [jm.plain(r) for r in jm.read_rows(obs[0].stdout)]
    except jm.JsonError as e:
        st.violation("unreadable", str(e), unit, None)
        return False
    for (S, T, mode), c, o in zip(combos, cases[1:], obs[1:]):
        st.count("limited_runs")
        want = expected_for(R, S, T, mode, unit.get("groupkey", "k"))
        try:
            got = [jm.plain(r) for r in jm.read_rows(o.stdout)]
        except jm.JsonError as e:
            st.violation("unreadable", str(e), dict(unit, focus=c.args), None)
            return False
        if got != want or [list(x.keys()) if isinstance(x, dict) else None for x in got] != [list(x.keys()) if isinstance(x, dict) else None for x in want]:
            tie = ""
            st.violation("limit-mismatch:%s:sorts=%d" % (mode, base_args.count("--sort-by")),
                         "--skip %s --take %s (%s) is not rows S..S+T-1 of the unlimited result" % (S, T, mode),
                         dict(unit, focus=c.args),
                         {"args": c.args, "input": data[:800], "unlimited_rows": R[:12], "expected": want[:8], "got": got[:8]})
            return False
        dropped = len(R) - len(R[S:] if T is None else R[S:S + T])
        if dropped:
            st.see("nontrivial", (hash(data) & 0xFFFFFFF, tuple(base_args), S, T, mode))
            if T is not None and base_args.count("--sort-by"):
                st.count("sorted_runs_with_capacity_cut")
                # a tie straddling the cut?
                cut = S + T
                if 0 < cut < len(R):
                    st.count("cuts_inside_result")
        if mode != "plain":
            st.count("limited_group_or_merge_runs")
    st.count("conclusive")
    return True


def run_unit(ctx, unit):
    if unit["kind"] == "exhaustive":
        recs = [{"k": KEYS4[k], "s": i} if KEYS4[k] is not None else {"s": i} for i, k in enumerate(unit["stream"])]
        data = "\n".join(jm.dumps(r) for r in recs).encode()
        sorts = SORTS[unit["sort"]]
        combos = [(S, T, m) for S in range(7) for T in [None] + list(range(7)) for m in MODES]
        pieces = None
        if unit.get("files") and len(recs) >= 1:
            texts = [jm.dumps(r).encode() for r in recs]
            cut = unit["files"] % (len(texts) + 1)
            pieces = [b"\n".join(texts[:cut]), b"\n".join(texts[cut:])]
        judge(ctx, unit, data, pipeline_args(sorts, []), combos, pieces)
    else:
        data = unit["input"]
        combos = [tuple(c) for c in unit["combos"]]
        judge(ctx, unit, data, unit["args"], combos, unit.get("pieces"))


def all_streams(maxlen):
    for n in range(maxlen + 1):
        for s in itertools.product(range(4), repeat=n):
            yield list(s)


def gen_random(rng):
    recs = records.gen_records(rng)
    if rng.random() < 0.02:
        # a long history (thousands of rows over few keys): whatever batch size a bounded sorter trims in is exceeded
        recs = records.gen_records(rng, n=rng.choice((1500, 2600, 4000)))
    if rng.random() < 0.15 and recs:
        # sort keys that are objects with the same members in different orders (not with --unique: C10 excludes them)
        for r0 in recs:
            if rng.random() < 0.5:
                r0["k"] = rng.choice(records.PERMUTED_KEYS)
        permuted = True
    else:
        permuted = False
    args = []
    groupkey = "g"
    if rng.random() < 0.2:
        # top-level scalars between the records; with --only-objects-and-arrays they are no rows and use up no --skip
        recs = [x for r0 in recs for x in ([r0] if rng.random() < 0.7 else [rng.choice((1, "s", None, True, 2.5)), r0])]
        args += ["--only-objects-and-arrays"]
    r = rng.random()
    if r < 0.3:
        args += ["--split-by", ".arr"]
        # split elements are scalars: group key .g absent -> everything dropped (still must emit {})
    if rng.random() < 0.3:
        args += ["--filter", rng.choice(["(number? .k)", "(string? .g)", "(not (null? .v))", "(< .s 7)"])]
    if rng.random() < 0.4:
        args += ["--select", ".k=k", "--select", ".g=g"]
        if rng.random() < 0.5:
            args += ["--select", ".s=s"]
        if rng.random() < 0.6:
            args += ["--unique"]
    elif rng.random() < 0.2:
        args += ["--unique"]
    if permuted:
        args = [a for a in args if a != "--unique"]
    has_sel = "--select" in args
    for i in range(rng.choice((0, 1, 1, 2, 3)) if not permuted else rng.choice((1, 2))):
        key = rng.choice([".k", ".k=DESC", ".v", ".v DESC", ".g", ".s=DESC", "(len .arr)", "1", ".k=asc"] + (["/k/", "/g/ DESC", "/k/=DESC"] if has_sel else []))
        if rng.random() < 0.15:
            # the key reaches its value through a --set macro or variable (also: a selected column through a macro)
            import re as _re
            m = _re.fullmatch(r"(.*?)(?:[ =](DESC|asc))?", key)
            e, d = m.group(1), m.group(2) or ""
            if rng.random() < 0.6:
                args = ["--set", "@key%d=%s" % (i, e)] + args
                key = "@key%d %s" % (i, d)
            elif e.startswith("."):
                args = ["--set", "fld%d=\"%s\"" % (i, e[1:])] + args
                key = "(get . :fld%d) %s" % (i, d)
            key = key.strip()
        args += ["--sort-by", key]
    combos = []
    for _ in range(12):
        combos.append((rng.randint(0, 6), rng.choice([None, 0, 1, 2, 3, 4, 5, 6, 40, 2 ** 64 - 1, 2 ** 63]), rng.choice(MODES)))
    unit = {"kind": "random", "input": records.to_input(recs, rng), "args": args, "combos": combos, "groupkey": groupkey}
    if rng.random() < 0.1 and not permuted:
        # what a row knows about its place in the input is a sort key like any other (it restarts with every file)
        args = [a for a in args] + ["--sort-by", rng.choice(["&index-in-file", "&index-in-file=DESC", "&index DESC", "(% &index 3)", "&index-in-file asc"])]
        unit["args"] = args
    if rng.random() < 0.3 or "&index-in-file" in " ".join(args):
        texts = [jm.dumps(r).encode() for r in recs]
        nf = rng.choice((1, 2, 2, 3))
        cuts = sorted(rng.randint(0, len(texts)) for _ in range(nf - 1))
        bounds = [0] + cuts + [len(texts)]
        unit["pieces"] = [b"\n".join(texts[bounds[i]:bounds[i + 1]]) for i in range(nf)]
    return unit


def worker(ctx):
    st = ctx.stats
    maxlen = ctx.params["maxlen"]
    # exhaustive part, sharded over workers
    idx = 0
    for stream in all_streams(maxlen):
        for si in range(len(SORTS)):
            idx += 1
            if idx % ctx.nworkers != ctx.idx:
                continue
            if ctx.expired():
                st.count("stopped_by_deadline")
                st.count("exhaustive_incomplete")
                return
            unit = {"kind": "exhaustive", "stream": stream, "sort": si}
            if idx % 5 == 0:
                unit["files"] = 1 + idx % 7       # delivered as two files, cut after (files mod (n+1)) records
            run_unit(ctx, unit)
            st.count("exhaustive_units")
            if idx < 40 and ctx.idx == 0:
                st.sample(unit)
    for i in range(ctx.params["random_units"]):
        if ctx.expired():
            st.count("stopped_by_deadline")
            break
        unit = gen_random(ctx.rng)
        run_unit(ctx, unit)
        st.count("random_units")
        if i < 1 and ctx.idx == 0:
            st.sample({"args": unit["args"], "input": unit["input"][:200].decode("utf-8", "replace"), "combos": unit["combos"][:3]})


def run(env):
    quick = env.tier == "quick"
    params = {"maxlen": 4 if quick else 5, "random_units": 150 if quick else 6000}
    stats = core.run_workers(__name__, "worker", PROP, env.tier, env.seed, env.driver, env.hooks_on,
                             150 if quick else 1200, params)
    complete = not stats.counters.get("exhaustive_incomplete")
    return core.finish(PROP, env.tier, env.seed, LEVEL, stats, env.t0, RULE, min_conclusive=500 if quick else 5000,
                       exhaustive=complete,
                       extra={"explanation": "exhaustive refers to sub-domain (1): all streams of length <= %d over 4 keys x all S,T in 0..6 x 24 pipelines" % params["maxlen"]},
                       assumptions=["rows of the unlimited run of the same build are the reference (differential); group/merge reference is built in Python from those rows"])


def replay(env, unit):
    return replay_unit(env, run_unit, unit)
