"""C15 csv/text rows have one field per selection and csv is machine-readable.

csv: an independent RFC 4180 reader (skip-initial-space) over stdout recovers, field for field, the documented text of every
selected value; text: separators that cannot occur in rendered fields make field count = separator count + 1 and every
field is prefix + escaped contents + postfix / decimal spelling / keyword / concise JSON text / missing-value keyword.
"""
from .. import core, csvmodel, jsonmodel as jm
from ..main import replay_unit

PROP = "C15"
LEVEL = "exploration"
RULE = ("rows of 1-5 selections over values of all JSON types and absent, strings with quote, comma, CR, LF, TAB and non-ASCII characters; "
        "csv, and text with generated separators, prefix/postfix, keywords, single-character escape sequences, --headers and "
        "--missing-value-keyword; distinct_nontrivial = distinct (mode, value class, special-character class) triples read back")

SPECIALS = ['"', ",", "\r", "\n", "\t", "é", "日", '""', ", ", '",', "\r\n", " ", "a", "", "null", "True", "1", "\\", "'", ";", "|",
            "\U0001F603", "\U00010000", "\U0010FFFF", "\x7f", "\x01", "\x1f", "\u2028", "\uffff", "\x80", "/"]


def gen_string(rng, text_mode=False):
    n = rng.choice((0, 1, 2, 3, 5))
    s = "".join(rng.choice(SPECIALS) for _ in range(n))
    if text_mode:
        for ch in "\r\n\t|;<>~":
            s = s.replace(ch, "")
    return s


def gen_value(rng, text_mode=False, depth=0):
    r = rng.random()
    if r < 0.12:
        return "__absent__"
    if r < 0.45:
        return gen_string(rng, text_mode)
    if r < 0.6:
        return rng.choice((0, 1, -1, 2.5, -0.001, 1e21, 12345678901234567890, 18446744073709551615, -9223372036854775808, 1e-7, 100, 3.0e2, 0.1))
    if r < 0.7:
        return rng.choice((True, False, None))
    if depth >= 2:
        return gen_string(rng, text_mode)
    if r < 0.85:
        return [gen_value(rng, text_mode, depth + 1) for _ in range(rng.choice((0, 1, 2, 3)))]
    d = {}
    for _ in range(rng.choice((0, 1, 2))):
        d[gen_string(rng, text_mode) or "k"] = gen_value(rng, text_mode, depth + 1)
    return d


def clean(v):
    """arrays/objects cannot contain absent"""
    if v == "__absent__":
        return None
    if isinstance(v, list):
        return [clean(x) for x in v]
    if isinstance(v, dict):
        return {k: clean(x) for k, x in v.items()}
    return v


def gen_unit(rng):
    mode = rng.choice(["csv", "csv", "text"])
    text = mode == "text"
    ncols = rng.randint(1, 5)
    names = []
    for i in range(ncols):
        # (a name is whatever follows the `=`, up to the end: blanks and other white space at its end belong to it)
        names.append(rng.choice(["c%d" % i, "col %d" % i, "é%d" % i, 'q"%d' % i, "a,b%d" % i, "Total%d " % i, "\u00a0unit%d" % i, "x%d\u3000" % i, "t%d\t" % i]) if not text else "c%d" % i)
    if ncols >= 2 and rng.random() < 0.15:
        # two selections under one name are still two fields
        i, j = rng.sample(range(ncols), 2)
        names[j] = names[i]
    rows = []
    for _ in range(rng.choice((0, 1, 2, 5, 12))):
        if rows and rng.random() < 0.25:
            # the previous row again, equal under jawk's equality but not the same text (member order, 2^64-1 vs 2^64)
            rows.append({k: jm.twin(v) for k, v in rows[-1].items()})
            continue
        r = {}
        for i in range(ncols):
            v = gen_value(rng, text)
            if v != "__absent__":
                r["f%d" % i] = clean(v)
        rows.append(r)
    if rows and rng.random() < 0.04:
        # one very long row (> 64 KiB of text) among ordinary ones: whatever block or buffer size a printer uses, a row can exceed it
        k = rng.randrange(len(rows))
        big = rng.choice(("x" * 70000, "he said \"hi\", twice " * 3500, list(range(15000)), {"k": "y" * 66000})) if not text else "z" * 70000
        rows[k]["f%d" % rng.randrange(ncols)] = big
    exprs = {}
    if rng.random() < 0.2:
        # selections without a name: the selection's own text is the name, however long it is
        for i in rng.sample(range(ncols), rng.randint(1, ncols)):
            e = rng.choice((".f%d", "(default .f%d (get . \"f%d\"))", "(? (object? .) .f%d .nosuchmember.deeper.still.and.deeper)",
                            "(default .f%d .f%d .f%d .f%d .f%d .f%d)")).replace("%d", str(i))
            exprs[str(i)] = e
            names[i] = e
    u = {"mode": mode, "names": names, "rows": rows, "opts": {}, "exprs": exprs}
    if rng.random() < 0.2:
        # limits cut rows, never the header
        u["limit"] = [rng.choice((0, 0, 1, 2)), rng.choice((0, 0, 1, 2, 5, 100))]
    u["rowsep"] = rng.choice(["\n", "\n", "\r\n"]) if not text else rng.choice(["\n", "\n", "\r\n", "^^\n", "@@", "@\r\n"])
    if text:
        o = {}
        o["sep"] = rng.choice(["\t", "|", " ; ", "~~", "<>"])
        if rng.random() < 0.5:
            o["prefix"], o["postfix"] = rng.choice([("<", ">"), ("[[", "]]"), ("'", "'")] if o["sep"] != "<>" else [("[[", "]]"), ("'", "'")])
        if rng.random() < 0.5:
            o["null"], o["true"], o["false"] = "NULL", "yes", "no"
        if rng.random() < 0.5:
            o["missing"] = rng.choice(["N/A", "-", "(none)"])
        if rng.random() < 0.5:
            o["escapes"] = rng.choice([{"'": "\\'"}, {"a": "%61", "%": "%25"}, {" ": "_"},
                                       # an empty sequence deletes the character (characters that the JSON text of a nested value never holds raw)
                                       {"\r": ""}, {"\r": "", "\n": "\\n"}, {"\t": "", "\r": ""}, {"\r": "<CR>", "\t": ""}])
        o["headers"] = rng.random() < 0.5
        u["opts"] = o
        ctl = [c for c in o.get("escapes", {}) if c in "\r\n\t"]
        if ctl:
            # the characters that the configured sequences take care of do occur in the data (top-level strings: the JSON
            # text of a nested value never holds them raw)
            for r in rows:
                for k, v in list(r.items()):
                    if isinstance(v, str) and rng.random() < 0.6:
                        for _ in range(rng.choice((1, 1, 2))):
                            at = rng.randrange(len(v) + 1)
                            v = v[:at] + rng.choice(ctl) + v[at:]
                        r[k] = v
    return u


def build_args(unit):
    a = ["-o", unit["mode"]]
    if unit.get("rowsep", "\n") != "\n":
        a.append("--row-seperator=" + unit["rowsep"])
    for i, n in enumerate(unit["names"]):
        if str(i) in unit.get("exprs", {}):
            a.append("--select=" + unit["exprs"][str(i)])
        else:
            a.append("--select=.f%d=%s" % (i, n))
    if unit.get("limit"):
        if unit["limit"][0]:
            a += ["--skip", str(unit["limit"][0])]
        a += ["--take", str(unit["limit"][1])]
    o = unit["opts"]
    if unit["mode"] == "text":
        a.append("--items-seperator=" + o["sep"])
        if "prefix" in o:
            a += ["--string-prefix=" + o["prefix"], "--string-postfix=" + o["postfix"]]
        if "null" in o:
            a += ["--null-keyword=" + o["null"], "--true-keyword=" + o["true"], "--false-keyword=" + o["false"]]
        if "missing" in o:
            a.append("--missing-value-keyword=" + o["missing"])
        for ch, rep in o.get("escapes", {}).items():
            a.append("--escape-sequance=" + ch + rep)
        if o["headers"]:
            a.append("--headers")
    return a


def field_ok(value, present, text, quoted, st, mode):
    """csv: does the recovered field denote the value's documented text?"""
    if not present:
        return text == "" and not quoted
    if isinstance(value, str):
        st.see("nontrivial", (mode, "string", tuple(sorted(set(c for c in value if c in '",\r\n\t' or ord(c) > 127)))))
        return text == value
    if value is None:
        return text == "null"
    if value is True:
        return text == "True"
    if value is False:
        return text == "False"
    if isinstance(value, (int, float)):
        st.see("nontrivial", (mode, jm.classify(value), ()))
        try:
            tok = jm.JNum(text)
            if not jm._NUM.fullmatch(text.encode()):
                return False
        except Exception:
            return False
        from ..exprmodel import normalise
        v = normalise(value)
        return jm.num_match(v, tok) if isinstance(v, int) else float(text) == v
    # arrays / objects: concise JSON text
    try:
        back = jm.loads(text)
    except jm.JsonError:
        return False
    import re
    bare = re.sub(r'"(?:[^"\\]|\\.)*"', '""', text)
    if re.search(r"\s", bare):
        return False
    st.see("nontrivial", (mode, jm.classify(value), ()))
    from ..exprmodel import normalise
    return jm.same(normalise(value), back)


def run_unit(ctx, unit):
    st = ctx.stats
    args = build_args(unit)
    data = "\n".join(jm.dumps(r) for r in unit["rows"]).encode("utf-8")
    o = ctx.drv.run(core.Case(args, data))
    if o.result != "ok":
        st.violation("run:" + o.result, "run failed: %s %s" % (o.errtext, o.panicinfo), unit, {"args": args})
        return
    st.count("conclusive")
    try:
        out = o.stdout.decode("utf-8")
    except UnicodeDecodeError:
        st.violation("not-utf8", "stdout is not UTF-8", unit, {"stdout": o.stdout[:400]})
        return
    n = len(unit["names"])
    rows = unit["rows"]
    if unit.get("limit"):
        rows = rows[unit["limit"][0]:unit["limit"][0] + unit["limit"][1]]
        st.count("runs_with_limits")

    def bad(sig, msg, extra=None):
        d = {"args": args, "stdout": out[:1200]}
        d.update(extra or {})
        st.violation(sig + ":" + unit["mode"], msg, unit, d)

    rowsep = unit.get("rowsep", "\n")
    if unit["mode"] == "csv":
        if rowsep == "\r\n":
            # every record, the header included, ends in CRLF; for the reader below CRLF and LF are both record ends
            import re as _re
            bare = _re.sub(r'"(?:[^"]|"")*"', '""', out)
            if "\n" in bare.replace("\r\n", ""):
                return bad("csv-row-separator", "a record does not end with the configured row separator (CR LF)")
        try:
            recs = csvmodel.read(out)
        except csvmodel.CsvError as e:
            return bad("csv-unreadable", "an RFC 4180 reader cannot read the output: %s" % e)
        if len(recs) != len(rows) + 1:
            return bad("csv-record-count", "%d records for a header and %d rows" % (len(recs), len(rows)))
        hdr = [t for t, q in recs[0]]
        if hdr != unit["names"]:
            return bad("csv-header", "header row is %r, selection names are %r" % (hdr, unit["names"]))
        for ri, (rec, row) in enumerate(zip(recs[1:], rows)):
            if len(rec) != n:
                return bad("csv-field-count", "row %d has %d fields for %d selections" % (ri, len(rec), n))
            for i, (t, q) in enumerate(rec):
                key = "f%d" % i
                if not field_ok(row.get(key), key in row, t, q, st, "csv"):
                    return bad("csv-field", "row %d field %d reads back as %r for value %s" % (ri, i, t, jm.dumps(row[key]) if key in row else "<absent>"))
                st.count("fields_read_back")
        return
    # text mode
    oo = unit["opts"]
    sep = oo["sep"]
    lines = out.split(rowsep)
    if lines[-1] != "":
        return bad("text-last-row", "output does not end with the row separator")
    lines = lines[:-1]
    want_lines = len(rows) + (1 if oo["headers"] else 0)
    if len(lines) != want_lines:
        return bad("text-row-count", "%d lines for %d rows" % (len(lines), want_lines))
    esc = oo.get("escapes", {})
    pre, post = oo.get("prefix", ""), oo.get("postfix", "")

    def render_string(s):
        return pre + "".join(esc.get(c, c) for c in s) + post
    if oo["headers"]:
        fields = lines[0].split(sep)
        if fields != [render_string(x) for x in unit["names"]]:
            return bad("text-header", "header line %r" % lines[0])
        lines = lines[1:]
    for ri, (line, row) in enumerate(zip(lines, rows)):
        fields = line.split(sep)
        if len(fields) != n:
            return bad("text-field-count", "row %d has %d fields for %d selections" % (ri, len(fields), n))
        for i, t in enumerate(fields):
            key = "f%d" % i
            if key not in row:
                if t != oo.get("missing", ""):
                    return bad("text-missing", "absent value rendered as %r" % t)
                continue
            v = row[key]
            if isinstance(v, str):
                good = t == render_string(v)
                st.see("nontrivial", ("text", "string", tuple(sorted(esc)) + (pre,)))
            elif v is None:
                good = t == oo.get("null", "null")
            elif v is True:
                good = t == oo.get("true", "true")
            elif v is False:
                good = t == oo.get("false", "false")
            elif isinstance(v, (int, float)):
                good = field_ok(v, True, t, False, st, "text")
            else:
                # prefix + escaped(concise JSON) + postfix; invert only when escaping is trivially invertible
                if not (t.startswith(pre) and t.endswith(post) and len(t) >= len(pre) + len(post)):
                    good = False
                else:
                    inner = t[len(pre):len(t) - len(post)] if post else t[len(pre):]
                    if esc:
                        if esc == {"a": "%61", "%": "%25"}:
                            inner = inner.replace("%61", "a").replace("%25", "%")
                        elif esc == {" ": "_"}:
                            st.count("text_collections_not_inverted")
                            continue
                        elif esc == {"'": "\\'"}:
                            inner = inner.replace("\\'", "'")
                        elif esc == {"é": "e'"}:
                            inner = inner.replace("e'", "é")
                    good = field_ok(v, True, inner, False, st, "text")
            if not good:
                return bad("text-field", "row %d field %d rendered as %r for value %s" % (ri, i, t, jm.dumps(v)))
            st.count("fields_read_back")


def worker(ctx):
    st = ctx.stats
    for i in range(ctx.params["units_per_worker"]):
        if ctx.expired():
            st.count("stopped_by_deadline")
            break
        unit = gen_unit(ctx.rng)
        run_unit(ctx, unit)
        st.count("units")
        if i < 2 and ctx.idx == 0:
            st.sample({"args": build_args(unit), "rows": unit["rows"][:2]})


def run(env):
    quick = env.tier == "quick"
    stats = core.run_workers(__name__, "worker", PROP, env.tier, env.seed, env.driver, env.hooks_on,
                             40 if quick else 400, {"units_per_worker": 5000 if quick else 40000})
    return core.finish(PROP, env.tier, env.seed, LEVEL, stats, env.t0, RULE, min_conclusive=2000 if quick else 20000,
                       assumptions=["vf/csvmodel.py is a faithful RFC 4180 reader with the skip-initial-space dialect",
                                    "text mode: data avoids the item separator, line breaks and (for collections) non-invertible escape sequences"])


def replay(env, unit):
    return replay_unit(env, run_unit, unit)
