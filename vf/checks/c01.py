"""C01 Stream fidelity: every input JSON value comes out once, in order, unchanged.

Oracle: the generator knows the values it spelt; stdout is read by the
independent strict reader (rows framed by exactly one LF) and compared value by
value (member order, code points, integers exactly, other numbers as nearest
double).  Companion run with --on-error=stderr must give the same stdout and
an empty stderr (a mis-tokenisation between values cannot hide behind the
default `ignore` policy).
"""
import time

from .. import core, findings, jsonmodel as jm, streams
from ..main import replay_unit

PROP = "C01"
LEVEL = "exploration"
RULE = ("seeded generator: streams of 0-60 values over the value domain (all six types, string classes incl. C0/DEL/"
        "U+2028/astral, boundary integers and doubles, nesting to 64), each value re-spelt independently (whitespace, "
        "escape forms, number spellings incl. upper-case exponents), separators from any whitespace run or nothing "
        "where tokens may touch; plus directed templates (number spelling x boundary integer, escape form x "
        "character, literal followed by every legal next byte). distinct_nontrivial = distinct (value class, "
        "spelling tag set hash, stream length bucket) among streams with >= 1 value")


def directed(rng):
    """Directed sub-workloads returning (input bytes, expected)."""
    k = rng.randrange(5)
    if k == 0:
        # every number spelling template x boundary integers
        xs = [rng.choice(jm.BOUNDARY_INTS) for _ in range(20)] + [rng.choice(jm.BOUNDARY_FLOATS) for _ in range(6)]
        parts, exp = [], []
        for x in xs:
            t, e = jm.spell_number(x, rng)
            parts.append(t)
            exp.append(e)
        return (rng.choice((" ", "\n", "\t", "\r\n")).join(parts)).encode(), exp, "numbers"
    if k == 1:
        # each escape form of selected characters
        parts, exp = [], []
        for _ in range(20):
            c = rng.choice(("\"", "\\", "/", "\b", "\f", "\n", "\r", "\t", "\x00", "\x1f", "\x7f", "é", " ", "￿", "a", "Z", "0"))
            code = ord(c)
            forms = ["\\u%04x" % code, "\\u%04X" % code]
            if code in jm._SHORT:
                forms.append(jm._SHORT[code])
            if c == "/":
                forms += ["\\/", "/"]
            if code >= 0x20 and c not in "\"\\":
                forms.append(c)
            f = rng.choice(forms)
            pre, post = rng.choice(("", "x", "é")), rng.choice(("", "y", "\\n"))
            parts.append('"' + pre + f + post + '"')
            exp.append(pre + c + ("\n" if post == "\\n" else post))
        return "".join(parts).encode("utf-8"), exp, "escapes"
    if k == 2:
        # literal / number / closer followed by every legal next token, touching
        firsts = [("true", True), ("false", False), ("null", None), ("1", 1), ("-0", 0), ("2.5", 2.5), ("1e2", 100.0),
                  ("1E2", 100.0), ("7E+1", 70.0), ("5E-1", 0.5), ('""', ""), ("[]", []), ("{}", {}), ('"a"', "a")]
        nexts = [("true", True), ("false", False), ("null", None), ("-1", -1), ('"s"', "s"), ("[1]", [1]), ('{"a":1}', {"a": 1}), ("3", 3)]
        parts, exp = [], []
        for _ in range(12):
            a, ea = rng.choice(firsts)
            b, eb = rng.choice(nexts)
            if not jm.can_touch(a, b):
                b, eb = '"s"', "s"
            parts.append(a + b)
            exp += [ea, eb]
        return " ".join(parts).encode(), exp, "touching"
    if k == 3:
        v = jm.gen_deep(rng, 64)
        t, e = jm.spell(v, rng, None, 0.5)
        return (t + t).encode(), [e, e], "deep"
    # whitespace torture
    v = jm.gen_value(rng, 0, 3)
    t, e = jm.spell(v, rng, None, 0.95)
    return ("\r\n\t " + t + " \n\n" + t + "\t").encode(), [e, e], "whitespace"


SCHEDULES = [None, None, [1], [2], [3, 1], [1, 2, 3, 5], [7], [16], [64, 1], [4096], [8192], [1, 8191]]


def delivery(rng):
    """How the input bytes are handed over: sizes of successive read results (cycled) and calls answered Interrupted.
    The expected values do not depend on it, so it is free extra reach for look-ahead / buffering defects."""
    sched = rng.choice(SCHEDULES)
    if sched is not None and rng.random() < 0.3:
        sched = [rng.choice((1, 2, 3, 4, 5, 8, 13, 100)) for _ in range(rng.randint(1, 6))]
    intr = sorted(rng.sample(range(0, 40), rng.randint(1, 4))) if rng.random() < 0.15 else None
    return sched, intr


def gen_unit(rng, tags):
    sched, intr = delivery(rng)
    tags.add("delivery:" + ("whole" if sched is None else "1" if sched == [1] else "chunks") + ("+intr" if intr else ""))
    if rng.random() < 0.25:
        data, exp, kind = directed(rng)
        tags.add("directed:" + kind)
        return {"input": data, "expected": exp, "kind": kind, "rsched": sched, "rintr": intr}
    if rng.random() < 0.04:
        # a long stream of small values: token boundaries fall on every offset of any internal buffer size
        data, exp, spans, info = streams.gen_stream(rng, nvalues=rng.choice((1500, 3000, 6000)), maxdepth=1, tags=tags)
        return {"input": data, "expected": exp, "kind": "long", "rsched": sched, "rintr": intr}
    data, exp, spans, info = streams.gen_stream(rng, tags=tags)
    return {"input": data, "expected": exp, "kind": "random", "rsched": sched, "rintr": intr}


def run_unit(ctx, unit):
    st = ctx.stats
    data, exp = unit["input"], unit["expected"]
    c1 = core.Case([], data, rsched=unit.get("rsched"), rintr=unit.get("rintr"))
    if unit.get("rintr") or (unit.get("rsched") and len(unit["rsched"]) > 2):
        # the sink, too, may take less than it is offered (short writes) and answer Interrupted now and then
        c1.wshort = [1, 3, 2, 17]
        c1.wintr = [1, 4]
    c2 = core.Case(["--on-error", "stderr"], data)
    c3 = core.Case(["--on-error", "panic"], data)
    o1, o2, o3 = ctx.drv.run_many([c1, c2, c3])
    for c, o in ((c1, o1), (c2, o2), (c3, o3)):
        if o.result in ("timeout", "abort"):
            o, confirmed = ctx.drv.confirm(c, o)
            if not confirmed:
                st.inconc("watchdog_not_reproduced")
                return
        if o.result != "ok":
            st.violation("result:" + o.result, "run on a clean stream did not succeed: %s %s %s" % (
                o.result, o.errtext, o.panicinfo), unit, {"args": c.args, "obs": o.brief()})
            return
    st.count("conclusive")
    st.count("values", len(exp))
    status, detail = findings.compare_rows(exp, o1.stdout, b"\n", ascii_mode=True)
    if status.startswith("known:"):
        st.known_finding(status[6:], unit)
        st.count("known_finding_cases")
        return "known"
    if status == "bad":
        st.violation(detail["why"], "stdout is not the input value sequence: %s" % detail, unit,
                     dict(detail, stdout=o1.stdout[:1500]))
        return
    if o1.stderr:
        st.violation("stderr-not-empty", "clean stream wrote to stderr under the default policy", unit,
                     {"stderr": o1.stderr[:500]})
        return
    if o2.stdout != o1.stdout or o2.stderr:
        st.violation("error-reported-on-clean-stream",
                     "--on-error=stderr changed stdout or reported an error on a clean stream: %r" % o2.stderr[:200],
                     unit, {"stdout_ignore": o1.stdout[:800], "stdout_stderr": o2.stdout[:800]})
        return
    if o3.stdout != o1.stdout:
        st.violation("panic-policy-differs", "--on-error=panic changed stdout on a clean stream", unit, None)
        return


def worker(ctx):
    st = ctx.stats
    n = ctx.params["units_per_worker"]
    for i in range(n):
        if ctx.expired():
            st.count("stopped_by_deadline")
            break
        tags = set()
        unit = gen_unit(ctx.rng, tags)
        r = run_unit(ctx, unit)
        st.count("streams")
        if r == "known":
            continue
        for t in tags:
            st.see("spelling_tags", t)
        if unit["expected"]:
            classes = frozenset(jm.classify(v) for v in unit["expected"])
            st.see("nontrivial", (hash(frozenset(tags)) & 0xFFFFFF, tuple(sorted(classes)), min(len(unit["expected"]), 20)))
            for cl in classes:
                st.see("value_classes", cl)
        if i < 2 and ctx.idx == 0:
            st.sample({"input": unit["input"][:300].decode("utf-8", "replace"), "values": len(unit["expected"]),
                       "kind": unit["kind"]})


def run(env):
    quick = env.tier == "quick"
    params = {"units_per_worker": 1500 if quick else 40000}
    stats = core.run_workers(__name__, "worker", PROP, env.tier, env.seed, env.driver, env.hooks_on,
                             45 if quick else 600, params)
    return core.finish(PROP, env.tier, env.seed, LEVEL, stats, env.t0, RULE,
                       min_conclusive=200 if quick else 2000,
                       assumptions=["the independent strict reader (vf/jsonmodel.py) and Python's float()/Fraction are correct",
                                    "surrogate-pair escapes and duplicate member names are outside the property's domain and not generated"])


def replay(env, unit):
    return replay_unit(env, run_unit, unit)
