"""C10 --unique removes exactly the later duplicates, by the same equality as `=`.

Differential: rows R without --unique; pairwise equality of the distinct rows observed from jawk's own `=` function
(one companion run over all pairs) and checked against the model equality; the --unique run must print exactly the rows of R
that have no earlier equal row, in order.
"""
from .. import core, jsonmodel as jm
from ..main import replay_unit

PROP = "C10"
LEVEL = "exploration"
RULE = ("random sequences of 0-40 values over a universe rich in repeats and equal spellings (1, 1.0, 1e0, 10e-1; a string spelt raw and "
        "with \\u escapes; nested equal collections), with and without selections (incl. absent ones); excluded as the property says: -0, "
        "member-order permutations, |n| >= 2^53. distinct_nontrivial = distinct (sequence hash, selection pattern) with at least one "
        "duplicate removed")

# (text spelling, canonical id for model equality)
UNIVERSE = [
    ("1", "n1"), ("1.0", "n1"), ("1e0", "n1"), ("10e-1", "n1"), ("0.1E1", "n1"),
    ("2", "n2"), ("2.0", "n2"), ("2.5", "n2.5"), ("25e-1", "n2.5"), ("0", "n0"), ("0.0", "n0"), ("0e5", "n0"),
    ("-1", "n-1"), ("-1.0", "n-1"), ("1e20", "n1e20"), ("100000000000000000000", "n1e20"),
    ('"a"', "sa"), ('"\\u0061"', "sa"), ('"A"', "sA"), ('""', "s"), ('"1"', "s1"), ('"\\u00e9"', "se"), ('"é"', "se"),
    ('"\\n"', "snl"), ('"\\u000a"', "snl"), ('"/"', "ssl"), ('"\\/"', "ssl"),
    ("null", "null"), ("true", "t"), ("false", "f"),
    ("[]", "a0"), ("[ ]", "a0"), ("[1]", "a1"), ("[1.0]", "a1"), ("[1,2]", "a12"), ("[2,1]", "a21"), ("[[1]]", "aa1"),
    ("{}", "o0"), ('{"a":1}', "oa1"), ('{"a":1.0}', "oa1"), ('{ "a" : 1e0 }', "oa1"), ('{"a":2}', "oa2"), ('{"b":1}', "ob1"),
    ('{"a":[1,{"b":null}]}', "ox"), ('{"a":[1.0,{"b":null}]}', "ox"), ('{"a":1,"b":2}', "oab"),
    ('[{"a":1}]', "aoa1"), ('[{"a":1.0}]', "aoa1"), ('"[1]"', "s[1]"),
    # unequal values that feed the same byte stream to a hasher that writes no lengths (object members moved one level up,
    # elements moved between neighbouring arrays): only equality can tell them apart
    ('{"a":{"b":1}}', "tw1"), ('{"a":{},"b":1}', "tw2"), ('{"a":{"b":1,"c":2}}', "tw3"), ('{"a":{"b":1},"c":2}', "tw4"),
    ('{"a":{"b":1.0}}', "tw1"), ('[[1],[]]', "tw5"), ('[[],[1]]', "tw6"), ('[[1,2]]', "tw7"), ('[[1],[2]]', "tw8"), ('[["a"],"b"]', "tw9"),
    ('[["a","b"]]', "tw10"), ('["ab"]', "tw11"), ('["a","b"]', "tw12"),
    # whole numbers near the top of the exactly-representable range in integer, decimal and exponent spelling (|n| < 2^53)
    ("1000000000000000", "n1e15"), ("1e15", "n1e15"), ("1000000000000000.0", "n1e15"), ("100e13", "n1e15"),
    ("2000000000000000", "n2e15"), ("2.0E+15", "n2e15"), ("9007199254740991", "nmax"), ("9007199254740991.0", "nmax"),
    ("-1000000000000000", "n-1e15"), ("-1E15", "n-1e15"),
    # neighbouring integers that share one double: different values, not duplicates; the same integer spelt as a double is one
    ("9007199254740992", "n2p53"), ("9007199254740993", "n2p53+1"), ("9007199254740992.0", "n2p53"), ("18446744073709551614", "nu64-1"),
    ("18446744073709551615", "nu64"), ("-9223372036854775807", "ni64+1"), ("-9223372036854775808", "ni64"), ("9223372036854775807", "ni64max"),
    ("9223372036854775808", "n2p63"),
    # different strings that an escaping printer without surrogate pairs renders alike (U+1F603 vs U+1F60 followed by "3")
    ('"\U0001f603"', "sast"), ('"\u1f603"', "sbmp3"), ('{"k":"\U0001f603"}', "oast"), ('{"k":"\u1f603"}', "obmp3"), ('["\U000fffff"]', "aast"), ('["\ufffff"]', "abmpf"),
    # neighbouring doubles: different values, not duplicates
    ("0.3", "n0.3"), ("0.30000000000000004", "n0.3+"), ("0.1", "n0.1"), ("0.10000000000000002", "n0.1+"), ("3.3", "n3.3"),
    ("3.3000000000000003", "n3.3+"), ("0.1e0", "n0.1"), ("30e-2", "n0.3"),
]


def gen_unit(rng):
    n = rng.choice((0, 1, 2, 3, 5, 8, 13, 21, 40))
    pool = rng.sample(UNIVERSE, rng.choice((2, 3, 5, 8, len(UNIVERSE))))
    mode = rng.choice(["plain", "plain", "select1", "select2", "wrapped", "computed", "dupname", "sorted", "context", "filtered"])
    if mode == "filtered":
        # a row that a filter rejects is no row: it cannot make a later row a duplicate
        items = ['{"x":%s,"ok":%s,"z":%d}' % (rng.choice(pool)[0], rng.choice(("true", "false", "null")), rng.randint(0, 9)) for _ in range(n)]
        args = rng.choice([["--filter", ".ok", "--select", ".x=x"], ["--where", "(= 0 (% .z 2))", "--select", ".x=x", "--select", "(null? .ok)=n"],
                           ["--select", ".x=x", "--filter", "(not .ok)"], ["--filter", ".ok"]])
        return {"input": rng.choice(["\n", " "]).join(items).encode("utf-8"), "args": args, "mode": mode}
    if mode == "context":
        # the row also holds something that is not a function of the input value alone (its place in the input, the record it
        # was split from): equal inputs then give different rows, and only equal ROWS are duplicates
        items = [rng.choice(pool)[0] for _ in range(n)]
        args = rng.choice([["--select", ".=v", "--select", "&index=i"], ["--select", ".=v", "--select", "(% &index 2)=p"],
                           ["--select", "(% &index-in-file 3)=p", "--select", ".=v"],
                           ["--split-by", "(push (push [] .) .)", "--select", ".=v", "--select", "(% &index 2)=p"],
                           ["--set", "one=1", "--select", ".=v", "--select", "(% (+ &index :one) 2)=p"]])
        wrapped = ['{"l":[%s,%s],"t":%d}' % (a, b, rng.randint(0, 1)) for a, b in zip(items, items[1:] + items[:1])]
        if rng.random() < 0.4 and n:
            return {"input": "\n".join(wrapped).encode("utf-8"), "args": ["--split-by", ".l", "--select", ".=v", "--select", "^.t=t"], "mode": mode}
        return {"input": rng.choice(["\n", " "]).join(items).encode("utf-8"), "args": args, "mode": mode}
    if mode == "computed":
        # the selected value is computed: results that print alike (10 from 10.3 and from 10) are duplicates
        nums = ["10.3", "10", "10.4", "-2.5", "-3", "6.5", "7", "7.0", "10.6", "11", "0", "0.4", "-0.4", "1e1", "2.5", "3", "-3.0", "6", "1e15", "999999999999999.6", "-4", "4", "-10", "-6.0"]
        f = rng.choice(["(round .x)", "(floor .x)", "(ceil .x)", "(abs .x)", "(+ .x 0)", "(* .x 1)", "(- (- .x))", "(/ .x 1)", "(% .x 100)", "(round (/ .x 2))",
                        "(size (range (% (abs (round .x)) 50)))", "(sum (push [] .x))", "(as_number .x)", "(default .nothing (floor .x))",
                        # zero reached from both sides
                        "(% .x 2)", "(% .x 1)", "(% (round .x) 5)", "(- .x .x)", "(% .x -2)",
                        # one total reached along different ways (integers of one sign, mixed signs, halves)
                        "(sum (push [] .x -3 3))", "(sum (push [] (/ .x 2) (/ .x 2)))", "(sum (push [] 1 (- .x 1)))", "(- (+ .x 5) 5)",
                        "(sum (push [] (abs .x) (- (abs .x)) 2))", "(- 5 (- 5 .x))", "(* (/ .x 4) 4)"])
        items = ['{"x":%s,"z":%d}' % (rng.choice(nums), rng.randint(0, 1000)) for _ in range(n)]
        return {"input": rng.choice(["\n", " "]).join(items).encode("utf-8"), "args": ["--select", f + "=x"], "mode": mode}
    items = []
    for _ in range(n):
        if mode in ("select2", "dupname"):
            a, b = rng.choice(pool), rng.choice(pool)
            parts = []
            if rng.random() < 0.8:
                parts.append('"x":' + a[0])
            if rng.random() < 0.8:
                parts.append('"y":' + b[0])
            parts.append('"z":%d' % rng.randint(0, 1000))
            items.append("{" + ",".join(parts) + "}")
        elif mode in ("select1", "wrapped"):
            a = rng.choice(pool)
            items.append('{"x":%s,"z":%d}' % (a[0], rng.randint(0, 1000)) if rng.random() < 0.85 else '{"z":%d}' % rng.randint(0, 1000))
        else:
            items.append(rng.choice(pool)[0])
    if mode == "sorted":
        # a sort in front of the output with few distinct keys: equal rows end up in one bucket, usually NOT next to each other
        items = [rng.choice(pool)[0] for _ in range(n)]
        key = rng.choice(["(array? .)", "(string? .)", "1", "(number? .)", "(object? .)", "(size (stringify .))", "(null? .)"])
        return {"input": rng.choice(["\n", " ", "\n\n"]).join(items).encode("utf-8"), "args": ["--sort-by", key + rng.choice(["", " DESC"])], "mode": mode}
    args = {"plain": [], "select1": ["--select", ".x=x"], "select2": ["--select", ".x=x", "--select", ".y=y"], "dupname": [],
            "wrapped": ["--select", "(push [] .x)=w"]}[mode]
    return {"input": rng.choice(["\n", " ", "\n\n"]).join(items).encode("utf-8"), "args": args, "mode": mode}


def model_key(v):
    """Canonical form under the model equality (numbers by value, object members as a set)."""
    if v is None or isinstance(v, (bool, str)):
        return ("v", type(v).__name__, v)
    if isinstance(v, (int, float)):
        from fractions import Fraction
        return ("n", Fraction(v))
    if isinstance(v, list):
        return ("a", tuple(model_key(x) for x in v))
    return ("o", tuple(sorted((k, model_key(x)) for k, x in v.items())))


def run_dupname(ctx, unit):
    """Two selections under one name are still two columns of the row key: --unique must keep exactly the rows it keeps when
    the columns have different names (csv output shows both columns either way)."""
    st = ctx.stats
    a = core.Case(["-o", "csv", "--select", ".x=v", "--select", ".y=v", "--unique"], unit["input"])
    b = core.Case(["-o", "csv", "--select", ".x=a", "--select", ".y=b", "--unique"], unit["input"])
    oa, ob = ctx.drv.run_many([a, b])
    if oa.result != "ok" or ob.result != "ok":
        st.inconc("dupname_run_failed")
        return
    st.count("conclusive")
    ra, rb = oa.stdout.split(b"\n", 1)[1:], ob.stdout.split(b"\n", 1)[1:]
    if ra != rb:
        st.violation("unique-depends-on-column-names", "--unique keeps other rows when two selections share a name", unit,
                     {"same_name": oa.stdout[:600], "different_names": ob.stdout[:600]})
        return
    st.count("dupname_comparisons")
    if ob.stdout.count(b"\n") > 2:
        st.see("nontrivial", (hash(unit["input"]) & 0xFFFFFFF, "dupname"))


def run_unit(ctx, unit):
    st = ctx.stats
    if unit["mode"] == "dupname":
        return run_dupname(ctx, unit)
    # (rows with characters above U+FFFF are printed raw: the escaped form is the known finding astral-escape and would make
    # two different strings read back alike)
    u8 = ["--utf8-strings"] if any(b >= 0xF0 for b in unit["input"]) else []
    base = core.Case(unit["args"] + u8, unit["input"])
    uq = core.Case(unit["args"] + u8 + ["--unique"], unit["input"])
    o0, o1 = ctx.drv.run_many([base, uq])
    for c, o in ((base, o0), (uq, o1)):
        if o.result != "ok":
            if o.result in ("timeout", "abort"):
                st.inconc("watchdog")
                return
            st.violation("result:" + o.result, "run failed: %s %s" % (o.errtext, o.panicinfo), unit, {"args": c.args, "obs": o.brief()})
            return
    st.count("conclusive")
    Rtext = [l for l in o0.stdout.split(b"\n") if l]
    R = [jm.plain(r) for r in jm.read_rows(o0.stdout)]
    U = [jm.plain(r) for r in jm.read_rows(o1.stdout)]
    # observed equality from jawk's own `=` over the distinct row texts
    distinct = []
    for t in Rtext:
        if t not in distinct:
            distinct.append(t)
    distinct = distinct[:16]
    pairs = [(i, j) for i in range(len(distinct)) for j in range(len(distinct)) if i < j]
    observed = {}
    if pairs:
        inp = b"\n".join(b"[" + distinct[i] + b"," + distinct[j] + b"]" for i, j in pairs)
        oc = ctx.drv.run(core.Case(["--select", "(= #0 #1)=e", "--select", "(= #1 #0)=r"], inp))
        if oc.result != "ok":
            st.inconc("equality_companion_failed")
            return
        er = [jm.plain(r) for r in jm.read_rows(oc.stdout)]
        if len(er) != len(pairs):
            st.inconc("equality_companion_rows")
            return
        for (i, j), row in zip(pairs, er):
            e = row.get("e")
            if e is not True and e is not False or row.get("r") is not e:
                st.violation("equality-not-boolean-symmetric", "(= a b) / (= b a) gave %r" % row, unit,
                             {"a": distinct[i], "b": distinct[j]})
                return
            observed[(distinct[i], distinct[j])] = e
            observed[(distinct[j], distinct[i])] = e
            # observed `=` against the model equality
            a = jm.plain(jm.loads(distinct[i]))
            b = jm.plain(jm.loads(distinct[j]))
            m = model_key(a) == model_key(b)
            if m != e:
                st.violation("equals-function-vs-model", "(= a b) is %s but the values are %s under the documented equality" % (e, "equal" if m else "different"),
                             unit, {"a": distinct[i], "b": distinct[j]})
                return
            st.count("pairs_compared")

    def eq(t1, t2):
        if t1 == t2:
            return True
        if (t1, t2) in observed:
            return observed[(t1, t2)]
        return model_key(jm.plain(jm.loads(t1))) == model_key(jm.plain(jm.loads(t2)))
    want = []
    want_t = []
    removed = 0
    for t, r in zip(Rtext, R):
        if any(eq(t, w) for w in want_t):
            removed += 1
            continue
        want_t.append(t)
        want.append(r)
    if U != want:
        st.violation("unique-mismatch:" + unit["mode"], "--unique did not remove exactly the later duplicates (rows without --unique: %d, expected %d, got %d)" % (
            len(R), len(want), len(U)), unit, {"args": unit["args"], "rows": R[:12], "expected": want[:12], "got": U[:12]})
        return
    st.count("duplicates_removed", removed)
    if removed:
        st.see("nontrivial", (hash(unit["input"]) & 0xFFFFFFF, unit["mode"]))
        st.count("units_with_duplicates")
    classes = set()
    for t in Rtext:
        classes.add(t[:1])
    for c in classes:
        st.see("row_first_bytes", c)


def worker(ctx):
    st = ctx.stats
    for i in range(ctx.params["units_per_worker"]):
        if ctx.expired():
            st.count("stopped_by_deadline")
            break
        unit = gen_unit(ctx.rng)
        run_unit(ctx, unit)
        st.count("units")
        if i < 1 and ctx.idx < 2:
            st.sample({"args": unit["args"], "input": unit["input"][:200].decode("utf-8", "replace")})


def run(env):
    quick = env.tier == "quick"
    stats = core.run_workers(__name__, "worker", PROP, env.tier, env.seed, env.driver, env.hooks_on,
                             40 if quick else 500, {"units_per_worker": 4000 if quick else 30000})
    return core.finish(PROP, env.tier, env.seed, LEVEL, stats, env.t0, RULE, min_conclusive=1000 if quick else 10000,
                       assumptions=["rows are compared through their printed one-line JSON text; equal texts are equal rows",
                                    "-0, member-order permutations and |n| >= 2^53 are outside the property's domain and not generated"])


def replay(env, unit):
    return replay_unit(env, run_unit, unit)
