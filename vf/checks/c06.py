"""C06 Noise between values never changes them; --on-error policies do what they say.

Differential oracle against the same run on the noise-free stream, plus per-policy stream predicates.
"""
from .. import core, jsonmodel as jm, streams
from ..main import replay_unit

PROP = "C06"
LEVEL = "exploration"
RULE = ("clean generated streams (whitespace separated) with 0-5 garbage tokens inserted at gaps (bytes that cannot start a "
        "JSON value, incl. } ] , : . e E + and bytes >= 0x80), run under the 4 --on-error policies x 7 pipelines and compared "
        "with the noise-free run; distinct_nontrivial = distinct (first garbage byte class, gap position class, policy, "
        "pipeline) combinations with at least one noise region and one value")

NO_ASTRAL = [c for c in jm.STRING_CLASSES if c not in ("astral", "empty")]
START_BYTES = set(b" \t\r\nntf\"-[{0123456789")
GARBAGE_BYTES = [b for b in range(1, 256) if b not in START_BYTES and b not in (0x0A, 0x0D)]
SPECIAL = list(b"}],:.eE+")
PIPELINES = {
    "identity": ([], True),
    "select": (["--select", "(string? .)=s", "--select", ".=v"], True),
    "filter": (["--filter", "(not (number? .))"], True),
    "unique": (["--unique"], True),
    "sort": (["--sort-by", "."], False),
    "merge": (["--merge"], False),
    "csv": (["-o", "csv", "--select", ".=v", "--select", "(number? .)=n"], True),
    "only-oa": (["--only-objects-and-arrays"], True),
    "only-oa-select": (["--only-objects-and-arrays", "--select", "(size .)=n", "--select", ".=v"], True),
    # what a value is told about its place in the input counts values, not malformed bytes
    "select-index": (["--select", "&index=i", "--select", "&index-in-file=f", "--select", ".=v"], True),
    "filter-index": (["--filter", "(= 0 (% &index 2))"], True),
}
# string values whose contents look like JSON syntax: a resynchronisation that scans bytes instead of tokens trips over them
SYNTAX_STRINGS = [b'"see [0] and {}"', b'"tail ["', b'"{"', b'"]"', b'"}"', b'"a,b:c"', b'"\\"[1]\\""', b'"{\\"a\\":1}"', b'"[[["',
                  b'"null"', b'"-"', b'"1 2 3"', b'"tru"', b'"\\\\"', b'"{\\"k\\":["']
POLICIES = ("ignore", "stdout", "stderr", "panic")
# a value cut off by the end of the input: only ever the very last token of a stream
TRUNCATED = [b'{"a":', b"[1,2", b'"abc', b"tru", b"nul", b"fals", b"-", b"[", b"{", b'{"a"', b'"x\\', b"[1,", b'{"a":1,', b'"\\u12',
             b'[[1],{"k":[', b'{"a":{"b":"c"', b"[true,fal"]


def gclass(b):
    if b in START_BYTES:
        return "truncated-value"
    if b in b"}]":
        return "closer"
    if b in b",:":
        return "punct"
    if b in b".eE+":
        return "numeric-tail"
    if b >= 0x80:
        return "high"
    if b < 0x20:
        return "control"
    if chr(b).isalpha():
        return "letter"
    return "other"


# number tokens that are malformed or denote no double: reported / skipped like any other noise, and nothing of them may
# stick to the numbers that follow
BROKEN_NUMBERS = [b"-.", b"- ", b"2e", b"1.5E-", b"1e999", b"2e+", b"-e", b"1.5e400", b"-1e999", b"12e", b"0.e", b"1e+", b"-1.5e", b"3E"]


# words of other notations (Python, JavaScript, SQL, YAML) for the three JSON literals and for non-finite numbers: noise
WORD_TOKENS = [b"True", b"False", b"Null", b"NULL", b"TRUE", b"FALSE", b"None", b"NaN", b"Infinity", b"undefined", b"Nil", b"Nul", b"Yes", b"No", b"N/A"]


# complete string literals whose bytes are not UTF-8: one malformed value each
NUL_RUNS = [b"\x00\x00", b"\x00\x00\x00\x00", b"\x00", b"\x00\x00\x00"]
BAD_STRINGS = [b'"caf\xe9"', b'"\xff"', b'"a\xc3"', b'"\xed\xa0\x80"', b'"\xf8\x88\x80\x80\x80"', b'"ok \xe2\x82 cut"', b'"\x80"']


def gen_token(rng):
    if rng.random() < 0.12:
        return rng.choice(BROKEN_NUMBERS)
    if rng.random() < 0.05:
        return rng.choice(BAD_STRINGS)
    if rng.random() < 0.04:
        return rng.choice(NUL_RUNS)       # what a log file truncated in place is padded with
    if rng.random() < 0.08:
        return rng.choice(WORD_TOKENS)
    n = rng.choice((1, 1, 1, 2, 3, 6))
    return bytes(rng.choice(SPECIAL) if rng.random() < 0.5 else rng.choice(GARBAGE_BYTES) for _ in range(n))


def _numbers(v, acc):
    if isinstance(v, bool):
        return
    if isinstance(v, (int, float)):
        acc.append(v)
    elif isinstance(v, list):
        for x in v:
            _numbers(x, acc)
    elif isinstance(v, dict):
        for x in v.values():
            _numbers(x, acc)


def unique_is_undetermined(values):
    """Beyond the interoperable range (C10's quantifier excludes it) jawk's `=` calls an integer and a double equal when they
    share a double, while --unique looks rows up by a hash of their own representation: whether such a pair counts as a
    duplicate differs from run to run of the SAME input (observed: 18446744073709551614 and 18446744073709552E3 - 2 of 300
    runs print one row).  Two runs can only be compared where the run itself is a function of its input."""
    acc = []
    for v in values:
        _numbers(v, acc)
    big = [x for x in acc if abs(x) >= 2 ** 53]
    # (any spelling of such a number may be read as an integer or as a double: two of them on one double are enough)
    return len(set(float(x) for x in big)) < len(big)


def gen_unit(rng):
    nvalues = rng.choice((0, 1, 2, 3, 5, 8, 13))
    vals = []
    pyvals = []
    for _ in range(nvalues):
        v = jm.gen_value(rng, 0, 3, NO_ASTRAL)
        pyvals.append(v)
        t, e = jm.spell(v, rng, None, 0.2)
        vals.append(t.encode("utf-8") if rng.random() > 0.15 else rng.choice(SYNTAX_STRINGS))
    gaps = [[] for _ in range(nvalues + 1)]
    for _ in range(rng.choice((0, 1, 1, 2, 3))):
        g = rng.randrange(nvalues + 1)
        gaps[g] = [gen_token(rng) for _ in range(rng.randint(1, 5))]
    if rng.random() < 0.003:
        # one very long malformed region (tens of thousands of bytes without a value in between)
        g = rng.randrange(nvalues + 1)
        gaps[g] = [bytes([rng.choice(SPECIAL)]) * 60000] if rng.random() < 0.5 else [bytes([rng.choice(SPECIAL)]) * 3] * 15000
    if rng.random() < 0.2:
        gaps[nvalues] = gaps[nvalues] + [rng.choice(TRUNCATED)]
    pipeline = rng.choice(list(PIPELINES))
    if pipeline == "unique" and unique_is_undetermined(pyvals):
        pipeline = "identity"
    return {"values": vals, "gaps": gaps, "pipeline": pipeline,
            "wsseed": rng.getrandbits(32)}


def build(unit, with_noise=True, only_gap=None, upto_value=None):
    """Returns (bytes, offset of the first garbage byte or None)."""
    import random
    r = random.Random(unit["wsseed"])
    out = []
    pos = 0
    first = None
    trunc_first = False
    vals = unit["values"]
    n = len(vals) if upto_value is None else upto_value
    for i in range(n + 1):
        toks = unit["gaps"][i] if with_noise and (only_gap is None or only_gap == i) and upto_value is None else []
        for t in toks:
            w = r.choice((b" ", b"\n", b"\t", b"  ", b"\r\n"))
            out.append(w)
            pos += len(w)
            if first is None:
                # a truncated value becomes malformed only where the input ends
                first = (pos if t not in BROKEN_NUMBERS and t not in BAD_STRINGS else pos + len(t) - 1) if t not in TRUNCATED else None
                if first is None:
                    trunc_first = True
            out.append(t)
            pos += len(t)
        w = r.choice((b" ", b"\n", b"\t ", b"\n\n"))
        if toks and toks[-1] in TRUNCATED:
            # no line break directly after a cut-off value: jawk quotes the offending character in its message, and a
            # message holding a raw LF could not be framed as one error: line (an assumption of this oracle, see run())
            w = r.choice((b" ", b"", b"\t"))
        out.append(w)
        pos += len(w)
        if i < n:
            out.append(vals[i])
            pos += len(vals[i])
    if trunc_first and first is None:
        first = pos
    return b"".join(out), first


def split_errors(stdout):
    lines = stdout.split(b"\n")
    errs = [l for l in lines if l.startswith(b"error:")]
    rest = b"\n".join(l for l in lines if not l.startswith(b"error:"))
    return errs, rest


# arrays and objects that go wrong inside (every bracket is closed again, so wherever a reader picks the stream up after the
# error, it is through with the wreck before the line ends)
WRECKS = [b"[1, oops]", b"[1 2]", b'{"a" 1}', b"[[[3,]]]", b'{"a":[1,]}', b'{"k":{"k":{"k":}}}', b"[{]}", b'[[["x" "y"]]]', b'{"a":1,}',
          b"[,]", b'{1:2}', b"[[[[[[[[!]]]]]]]]", b'{"a":{"b":[1,{"c":?}]}}']


def gen_wreck_unit(rng):
    """Hundreds of malformed arrays/objects, then ordinary values: what a reader went through before does not change what it
    makes of the values that follow (rows of X.Y = rows of X, then rows of Y)."""
    n = rng.choice((1, 5, 40, 130, 130, 300, 700))
    kinds = rng.sample(WRECKS, rng.choice((1, 1, 2, 4)))
    wrecks = [rng.choice(kinds) for _ in range(n)]
    vals = []
    for _ in range(rng.choice((1, 2, 5, 9))):
        v = jm.gen_value(rng, 0, 3, NO_ASTRAL)
        if rng.random() < 0.6 and not isinstance(v, (list, dict)):
            v = rng.choice(([v], {"m": v}, [[v], {"k": [v, 1]}], {"a": {"b": {"c": v}}}))
        vals.append(jm.spell(v, rng, None, 0.2)[0].encode("utf-8"))
    return {"kind": "wreck", "wrecks": wrecks, "values": vals, "pipeline": rng.choice(("identity", "select", "only-oa", "csv", "select-index-free")),
            "sep": rng.choice((b"\n", b"\n", b" \n", b"\r\n"))}


def run_wreck_unit(ctx, unit):
    st = ctx.stats
    pargs = {"select-index-free": ["--select", "(size .)=n", "--select", ".=v"]}.get(unit["pipeline"]) or PIPELINES[unit["pipeline"]][0]
    sep = unit["sep"]
    X = sep.join(unit["wrecks"]) + sep
    Y = sep.join(unit["values"]) + sep
    for pol in ("ignore", "stderr"):
        cases = [core.Case(["--on-error", pol] + pargs, d) for d in (X, Y, X + Y)]
        obs = ctx.drv.run_many(cases)
        for i, (c, o) in enumerate(zip(cases, obs)):
            if o.result in ("timeout", "abort"):
                o, ok = ctx.drv.confirm(c, o)
                if not ok:
                    st.inconc("watchdog_not_reproduced")
                    return
                obs[i] = o
            if o.result != "ok":
                st.violation("wreck-run-failed:" + pol, "malformed arrays/objects under --on-error=%s: the run ended with %s %s" % (pol, o.result, (o.errtext or o.panicinfo)[:200]),
                             unit, {"args": c.args, "input": c.stdin[:600], "obs": o.brief()})
                return
        st.count("wreck_comparisons")
        ox, oy, oxy = obs
        hdr = b""
        if unit["pipeline"] == "csv":
            # one header line per run
            hdr = oy.stdout.split(b"\n", 1)[0] + b"\n"
            if not (ox.stdout.startswith(hdr) and oy.stdout.startswith(hdr) and oxy.stdout.startswith(hdr)):
                st.inconc("csv_header_not_first_line")
                return
        want = ox.stdout + oy.stdout[len(hdr):]
        if oxy.stdout != want:
            st.violation("wreck-changes-later-rows:" + pol + ":" + unit["pipeline"],
                         "%d malformed arrays/objects, then %d values (--on-error=%s, pipeline %s): the rows of the whole stream are not the rows of "
                         "the malformed part followed by the rows of the values (%d bytes, expected %d; the values alone give %r...)" % (
                             len(unit["wrecks"]), len(unit["values"]), pol, unit["pipeline"], len(oxy.stdout), len(want), oy.stdout[:120]),
                         unit, {"args": cases[2].args, "input_head": (X + Y)[:300], "got_tail": oxy.stdout[-400:], "want_tail": want[-400:]})
            return
        if pol == "stderr" and unit["wrecks"] and b"error:" not in oxy.stderr:
            st.violation("wreck-not-reported", "malformed arrays/objects under --on-error=stderr: no error: line on stderr", unit,
                         {"args": cases[2].args, "input_head": (X + Y)[:300]})
            return
        if pol == "ignore" and oxy.stderr:
            st.violation("wreck-ignore-writes-stderr", "malformed arrays/objects under --on-error=ignore: stderr is not empty: %r" % oxy.stderr[:200], unit,
                         {"args": cases[2].args, "input_head": (X + Y)[:300]})
            return
    st.count("conclusive")
    st.count("wreck_units")
    st.see("nontrivial", ("wreck", min(len(unit["wrecks"]), 130), unit["pipeline"], unit["wrecks"][0][:4]))


def run_unit(ctx, unit):
    if unit.get("kind") == "wreck":
        return run_wreck_unit(ctx, unit)
    st = ctx.stats
    pargs, streaming = PIPELINES[unit["pipeline"]]
    noisy, first = build(unit, True)
    clean, _ = build(unit, False)
    regions = [i for i, g in enumerate(unit["gaps"]) if g]
    # values before the first noise region
    nbefore = regions[0] if regions else len(unit["values"])
    prefix, _ = build(unit, False, upto_value=nbefore)
    cases = [("clean/" + p, core.Case(["--on-error", p] + pargs, clean)) for p in POLICIES]
    cases += [("noisy/" + p, core.Case(["--on-error", p] + pargs, noisy)) for p in POLICIES]
    cases.append(("prefix", core.Case(pargs, prefix)))
    single = None
    if regions:
        single = ctx.rng.choice(regions) if hasattr(ctx, "rng") else regions[0]
        sdata, _ = build(unit, True, only_gap=single)
        cases.append(("single/stderr", core.Case(["--on-error", "stderr"] + pargs, sdata)))
        if 2 <= len(regions) <= 4 and len(noisy) < 3000:
            # every region on its own: what is reported about a region does not depend on the regions before it
            for g in regions:
                cases.append(("only%d/stderr" % g, core.Case(["--on-error", "stderr"] + pargs, build(unit, True, only_gap=g)[0])))
        if len(noisy) < 5000 and (unit["wsseed"] & 3) == 0:
            # the same noisy stream given as a file: same rows, a report per region, failure under panic
            # the file's name shows up in every report: short, long, non-ASCII; sometimes the file is reached through a
            # (nested) directory argument instead of being named itself
            fname = ("noisy.json", "\u00e9" * 30 + ".json", "dir with blanks/" + "x" * 70 + ".json", "\u65e5\u672c\u8a9e-" * 7 + "n.json")[(unit["wsseed"] >> 2) & 3]
            target = "@D@/" + fname
            if (unit["wsseed"] >> 5) & 1:
                fname = "nd/sub/" + fname.replace("/", "_")
                target = "@D@/nd"
            cases.append(("file/stderr", core.Case([target, "--on-error", "stderr"] + pargs, b"", files=[(fname, noisy)])))
            cases.append(("file/panic", core.Case([target, "--on-error", "panic"] + pargs, b"", files=[(fname, noisy)])))
            cases.append(("file/stdout", core.Case([target, "--on-error", "stdout"] + pargs, b"", files=[(fname, noisy)])))
            if not pargs:
                # the same file named twice: read twice, reported twice
                cases.append(("file2x/stderr", core.Case([target, target, "--on-error", "stderr"], b"", files=[(fname, noisy)])))
        if (unit["wsseed"] & 7) == 1:
            # a clean file that starts with a byte-order mark (or other bytes an editor may put first): one more malformed region
            hd = (b"\xef\xbb\xbf", b"\xef\xbb\xbf\n", b"\xff\xfe", b"\xef\xbb\xbf ")[(unit["wsseed"] >> 3) & 3]
            cases.append(("bomfile/stderr", core.Case(["@D@/bom.json", "--on-error", "stderr"] + pargs, b"", files=[("bom.json", hd + clean)])))
            cases.append(("bomfile/panic", core.Case(["@D@/bom.json", "--on-error", "panic"] + pargs, b"", files=[("bom.json", hd + clean)])))
    obs = ctx.drv.run_many([c for _, c in cases])
    res = {}
    for (name, c), o in zip(cases, obs):
        if o.result in ("timeout", "abort"):
            o, ok = ctx.drv.confirm(c, o)
            if not ok:
                st.inconc("watchdog_not_reproduced")
                return
        if o.result in ("panic", "timeout", "abort"):
            st.violation("result:" + o.result, "%s: %s %s" % (name, o.result, o.panicinfo), unit, {"args": c.args, "obs": o.brief()})
            return
        res[name] = o
    st.count("conclusive")
    base = res["clean/ignore"]
    if base.result != "ok":
        st.violation("clean-failed", "clean stream failed: %s" % base.errtext, unit, None)
        return

    def bad(sig, msg, name):
        o = res[name]
        st.violation(sig, "%s (%s, pipeline %s)" % (msg, name, unit["pipeline"]), unit,
                     {"noisy_input": noisy[:1500], "clean_stdout": base.stdout[:1000], "stdout": o.stdout[:1000],
                      "stderr": o.stderr[:600], "result": o.result, "errtext": o.errtext})

    # a clean stream produces no report under any policy
    for p in POLICIES:
        o = res["clean/" + p]
        if o.result != "ok" or o.stdout != base.stdout or o.stderr:
            return bad("clean-stream-report", "clean stream: policy changed the result or reported an error", "clean/" + p)
    # ignore
    o = res["noisy/ignore"]
    if o.result != "ok" or o.stdout != base.stdout or o.stderr:
        return bad("ignore-changed-rows", "noise changed the rows / wrote to stderr under ignore", "noisy/ignore")
    # stderr
    o = res["noisy/stderr"]
    if o.result != "ok" or o.stdout != base.stdout:
        return bad("stderr-changed-rows", "noise changed the rows under --on-error=stderr", "noisy/stderr")
    elines = [l for l in o.stderr.split(b"\n") if l]
    if any(not l.startswith(b"error:") for l in elines):
        return bad("stderr-not-error-lines", "stderr holds something other than error: lines", "noisy/stderr")
    if len(elines) < len(regions):
        return bad("stderr-missing-report", "%d noise regions but %d error lines" % (len(regions), len(elines)), "noisy/stderr")
    # stdout
    o = res["noisy/stdout"]
    errs, rest = split_errors(o.stdout)
    if o.result != "ok" or rest != base.stdout or o.stderr:
        return bad("stdout-changed-rows", "rows differ once error: lines are removed / stderr used under --on-error=stdout", "noisy/stdout")
    if len(errs) < len(regions):
        return bad("stdout-missing-report", "%d noise regions but %d error lines" % (len(regions), len(errs)), "noisy/stdout")
    # panic
    o = res["noisy/panic"]
    if regions:
        if o.result != "err":
            return bad("panic-did-not-fail", "--on-error=panic did not fail on noise", "noisy/panic")
        want = res["prefix"].stdout if streaming else b""
        if streaming and o.stdout != want:
            return bad("panic-rows", "rows emitted before the failure are not exactly those of the preceding values", "noisy/panic")
        if not streaming and o.stdout != b"":
            return bad("panic-rows-buffering", "a buffering pipeline emitted rows although the run failed", "noisy/panic")
        if o.pulled > first + 2:
            return bad("panic-read-on", "read %d bytes although the first malformed byte is at offset %d" % (o.pulled, first), "noisy/panic")
        if o.stderr:
            return bad("panic-stderr", "panic policy wrote diagnostics to the error stream itself", "noisy/panic")
        st.count("panic_runs_checked")
    else:
        if o.result != "ok" or o.stdout != base.stdout:
            return bad("panic-on-clean", "panic policy failed without noise", "noisy/panic")
    if single is not None:
        o = res["single/stderr"]
        el = [l for l in o.stderr.split(b"\n") if l]
        if o.result != "ok" or o.stdout != base.stdout or len(el) < 1:
            return bad("single-region-no-report", "a stream with only region %d inserted yields no error line" % single, "single/stderr")
        st.count("single_region_runs")
    if regions and ("only%d/stderr" % regions[0]) in res:
        per = [len([l for l in res["only%d/stderr" % g].stderr.split(b"\n") if l]) for g in regions]
        total = len([l for l in res["noisy/stderr"].stderr.split(b"\n") if l])
        if sum(per) != total:
            return bad("reports-not-additive", "regions reported on their own: %s error lines, all regions in one stream: %d" % (per, total), "noisy/stderr")
        st.count("additive_report_checks")
    if "file/stderr" in res:
        o = res["file/stderr"]
        el = [l for l in o.stderr.split(b"\n") if l]
        if o.result != "ok" or o.stdout != base.stdout or len(el) < len(regions) or any(not l.startswith(b"error:") for l in el):
            return bad("file-stderr", "the noisy stream given as a file: rows differ from the clean stream or a region is not reported", "file/stderr")
        if "file2x/stderr" in res:
            o2 = res["file2x/stderr"]
            el2 = [l for l in o2.stderr.split(b"\n") if l]
            if o2.result != "ok" or o2.stdout != base.stdout + base.stdout or len(el2) != 2 * len(el):
                return bad("file-twice", "the noisy file named twice: %d error lines (once: %d), rows %s" % (len(el2), len(el), "doubled" if o2.stdout == base.stdout * 2 else "differ"), "file2x/stderr")
            st.count("file_twice_runs")
        o = res["file/stdout"]
        errs_f, rest_f = split_errors(o.stdout)
        if o.result != "ok" or rest_f != base.stdout or len(errs_f) < len(regions) or o.stderr:
            return bad("file-stdout", "the noisy stream given as a file: rows differ or a region is not reported under --on-error=stdout", "file/stdout")
        o = res["file/panic"]
        if o.result != "err" or (streaming and o.stdout != res["prefix"].stdout):
            return bad("file-panic", "the noisy stream given as a file: --on-error=panic did not fail at the first malformed byte", "file/panic")
        st.count("file_delivery_runs")
    if "bomfile/stderr" in res:
        o = res["bomfile/stderr"]
        el = [l for l in o.stderr.split(b"\n") if l]
        if o.result != "ok" or o.stdout != base.stdout or len(el) < 1:
            return bad("bom-file-stderr", "a file starting with a byte-order mark: rows differ or the leading malformed bytes are not reported", "bomfile/stderr")
        o = res["bomfile/panic"]
        header = base.stdout.split(b"\n")[0] + b"\n" if unit["pipeline"] == "csv" else b""
        if o.result != "err" or o.stdout not in (b"", header):
            return bad("bom-file-panic", "a file starting with a byte-order mark: --on-error=panic did not fail at the first byte", "bomfile/panic")
        st.count("bom_file_runs")
    st.count("noise_regions", len(regions))
    st.count("error_lines_seen", len(elines))
    if regions and unit["values"]:
        for g in regions:
            b0 = unit["gaps"][g][0][0]
            posc = "start" if g == 0 else "end" if g == len(unit["values"]) else "middle"
            for p in POLICIES:
                st.see("nontrivial", (gclass(b0), posc, p, unit["pipeline"]))


def worker(ctx):
    st = ctx.stats
    for i in range(ctx.params["units_per_worker"]):
        if ctx.expired():
            st.count("stopped_by_deadline")
            break
        unit = gen_unit(ctx.rng) if ctx.rng.random() > 0.04 else gen_wreck_unit(ctx.rng)
        run_unit(ctx, unit)
        st.count("units")
        if i < 2 and ctx.idx == 0 and unit.get("kind") != "wreck":
            st.sample({"pipeline": unit["pipeline"], "noisy_input": build(unit)[0][:300].decode("latin-1")})


def run(env):
    quick = env.tier == "quick"
    stats = core.run_workers(__name__, "worker", PROP, env.tier, env.seed, env.driver, env.hooks_on,
                             45 if quick else 600, {"units_per_worker": 1500 if quick else 20000})
    return core.finish(PROP, env.tier, env.seed, LEVEL, stats, env.t0, RULE, min_conclusive=500 if quick else 5000,
                       assumptions=["error: lines never contain a line break (garbage tokens contain no CR/LF)",
                                    "JSON/csv rows never begin with the text error:"])


def replay(env, unit):
    return replay_unit(env, run_unit, unit)
