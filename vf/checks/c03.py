"""C03 The pipeline is the documented stage composition in the documented order.

Reference-model oracle: vf/pipemodel.py applies the documented stages as pure list transformations (expressions from a core
sub-grammar evaluated by the reference evaluator) and the rows must match; metamorphic oracle: shuffling the options on the
command line (keeping the relative order of --select and of --sort-by) must not change a byte of stdout.
"""
from .. import core, exprgen as eg, exprmodel as em, jsonmodel as jm, pipemodel
from ..main import replay_unit
from . import c04

PROP = "C03"
LEVEL = "exploration"
RULE = ("option subsets drawn over {--set, --split-by, --filter, --select x0-3, --unique, --sort-by x0-3 with directions, --skip, --take, "
        "--group-by | --merge, --only-objects-and-arrays} with core-grammar expressions (extractors, comparisons, boolean logic, size, small "
        "arithmetic, concat, get, default, ?, type predicates, filter/map/take/first) and planted order probes, on 0-40 generated records; "
        "distinct_nontrivial = distinct option-presence patterns x (stage actually changed the data) among specified cases")

CORE = ["=", "!=", "<", "<=", ">", ">=", "and", "or", "not", "size", "+", "-", "concat", "get", "default", "?", "string?", "number?", "array?",
        "object?", "null?", "empty?", "bool?", "as_string", "as_number", "filter", "map", "take", "first", "last", "push", "keys", "values"]


def gen_unit(rng):
    g = eg.Gen(rng, ill_typed=0.05, maxdepth=2, funcs=CORE, nonascii=0.1, big_n=0.0, allow_parse_selection=False)
    u = {"only_oa": rng.random() < 0.15, "vars": {}, "macros": {}, "split": None, "filter": None, "selects": [], "unique": rng.random() < 0.3,
         "sorts": [], "skip": 0, "take": None, "group": None, "merge": False}
    sc = eg.Scope()
    if rng.random() < 0.3:
        v = g.lit(rng.choice(("num", "str", "arr:num")))
        u["vars"]["gv"] = v[1]
        sc = sc.with_var("gv", "any")
    if rng.random() < 0.2:
        u["macros"]["gm"] = g.gen(rng.choice(("num", "bool", "str")), eg.Scope().macro_body())
        sc = sc.with_macro("gm", "any")
    if rng.random() < 0.12:
        # a --set value is computed on its own (no input, no other --set in sight), wherever it stands among the options:
        # a reference to another --set in it is a reference to nothing
        fb = rng.choice((7, "fb", [1, 2]))
        u["exprvars"] = {"xv": ["(default %s %s)" % (rng.choice((":gv", "@gm", "(: \"gv\")", ":xw", ".n", "(get . \"k\")")), jm.dumps(fb)), fb]}
        if rng.random() < 0.5:
            u["exprvars"]["xw"] = ["(default :xv 1)", 1]
        sc = sc.with_var("xv", "any")
    nosel = lambda s: eg.Scope(s.dot, s.parents, s.vars, s.macros, {}, False)
    base = sc
    if rng.random() < 0.35:
        r = rng.random()
        if r < 0.15:
            u["split"] = ("sel", "c0")           # order probe: selected names are not available to --split-by
        else:
            u["split"] = g.gen(rng.choice(("arr:num", "arr:obj", "arr:str", "arr:arr")), nosel(base))
        base = base.push("any")
    if rng.random() < 0.45:
        r = rng.random()
        if r < 0.12:
            u["filter"] = ("call", "not", (("call", "empty?", (("sel", "c0"),)),))   # probe: /c0/ is nothing in --filter -> nothing survives
        elif r < 0.3 and u["split"] is not None:
            u["filter"] = ("call", "object?", (("path", 1, ()),))   # distinguishes the record (^) from its split elements
        else:
            u["filter"] = g.gen("bool", nosel(base))
    cur = base
    nsel = rng.choice((0, 0, 1, 2, 3))
    for i in range(nsel):
        r = rng.random()
        if r < 0.25:
            e = ("path", 0, (("k", rng.choice(("i", "b", "s", "tw", "big"))),)) if cur.dot == "rec" else ("call", "size", (("path", 0, ()),))  # collapses inputs before --unique
        else:
            e = g.gen(rng.choice(("num", "str", "bool", "any", "arr:num", "int")), cur)
        # names are whatever follows '=': blanks inside or at the end belong to the name ("c0" and "c0 " are two names)
        nm = ("c%d" % i) + (rng.choice((" ", "  ", "\u00a0", " x", "\u00e9")) if rng.random() < 0.12 else "")
        u["selects"].append((nm, e))
        cur = eg.Scope(cur.dot, cur.parents, cur.vars, cur.macros, dict(cur.sels, **{"c%d" % i: "any"}) if nm == "c%d" % i else cur.sels, True)
    for _ in range(rng.choice((0, 0, 1, 1, 2, 3))):
        r = rng.random()
        if r < 0.3 and cur.dot == "rec":
            e = ("path", 0, (("k", rng.choice(("i", "b", "s", "n"))),))      # ties in front of skip/take
        elif r < 0.45 and nsel:
            e = ("sel", "c%d" % rng.randrange(nsel))
        else:
            e = g.gen(rng.choice(("num", "str", "int", "bool")), cur)
        u["sorts"].append((e, rng.random() < 0.4))
    if rng.random() < 0.3:
        u["skip"] = rng.randint(0, 4)
    if rng.random() < 0.35:
        # (also the natural spellings of "no limit": the window is rows S.. of the result, wherever S + T lies)
        u["take"] = rng.choice((0, 1, 2, 3, 5, 8, 8, 2 ** 64 - 1, 2 ** 64 - 2, 2 ** 63))
    r = rng.random()
    if r < 0.2:
        u["group"] = ("path", 0, (("k", rng.choice(("s", "u"))),)) if cur.dot == "rec" and rng.random() < 0.6 else g.gen("str", cur)
    elif r < 0.3:
        u["merge"] = True
    n = rng.choice((0, 1, 2, 5, 12, 40))
    u["inputs"] = [eg.gen_input(rng) for _ in range(n)]
    u["shuffle_seed"] = rng.getrandbits(32)
    # in the second run (shuffled options) the same values sometimes arrive as 1-3 files instead of stdin
    u["file_cuts"] = sorted(rng.randint(0, n) for _ in range(rng.choice((0, 1, 1, 2)))) if rng.random() < 0.3 else None
    return u


def to_cfg(u):
    c = pipemodel.Cfg()
    c.only_oa = u["only_oa"]
    c.vars = dict(u["vars"], **{k: v[1] for k, v in u.get("exprvars", {}).items()})
    c.macros = u["macros"]
    c.split = u["split"]
    c.filter = u["filter"]
    c.selects = u["selects"]
    c.unique = u["unique"]
    c.sorts = u["sorts"]
    c.skip = u["skip"]
    c.take = u["take"]
    c.group = u["group"]
    c.merge = u["merge"]
    return c


def option_groups(u, rng=None):
    """List of option groups (each a list of argv elements); selects and sorts keep their relative order."""
    G = []
    if u["only_oa"]:
        G.append(["--only-objects-and-arrays"])
    for k, v in u["vars"].items():
        G.append(["--set", "%s=%s" % (k, eg.show(("lit", v)))])
    for k, m in u["macros"].items():
        G.append(["--set", "@%s=%s" % (k, eg.show(m))])
    for k, (text, _) in u.get("exprvars", {}).items():
        G.append(["--set", "%s=%s" % (k, text)])
    if u["split"] is not None:
        G.append(["--split-by=" + eg.show(u["split"])])
    if u["filter"] is not None:
        G.append(["--filter=" + eg.show(u["filter"])])
    for name, e in u["selects"]:
        G.append(("select", ["--select=%s=%s" % (eg.show(e), name)]))
    if u["unique"]:
        G.append(["--unique"])
    for e, desc in u["sorts"]:
        G.append(("sort", ["--sort-by=%s%s" % (eg.show(e), " DESC" if desc else "")]))
    if u["skip"]:
        G.append(["--skip", str(u["skip"])])
    if u["take"] is not None:
        G.append(["--take", str(u["take"])])
    if u["group"] is not None:
        G.append(["--group-by=" + eg.show(u["group"])])
    if u["merge"]:
        G.append(["--merge"])
    return G


def argv(G, order=None):
    """Flatten; with `order` (a permutation of indices) shuffle groups but keep selects / sorts in relative order."""
    idx = list(range(len(G))) if order is None else order
    sel = [g for g in G if isinstance(g, tuple) and g[0] == "select"]
    srt = [g for g in G if isinstance(g, tuple) and g[0] == "sort"]
    si = so = 0
    out = []
    for i in idx:
        g = G[i]
        if isinstance(g, tuple):
            if g[0] == "select":
                out += sel[si][1]
                si += 1
            else:
                out += srt[so][1]
                so += 1
        else:
            out += g
    return out


def pattern(u):
    return (u["only_oa"], bool(u["vars"]), bool(u["macros"]), u["split"] is not None, u["filter"] is not None, len(u["selects"]), u["unique"],
            len(u["sorts"]), bool(u["skip"]), u["take"] is not None, u["group"] is not None, u["merge"])


def run_unit(ctx, unit):
    import random
    st = ctx.stats
    G = option_groups(unit)
    data = "\n".join(jm.dumps(v) for v in unit["inputs"]).encode("utf-8")
    r = random.Random(unit["shuffle_seed"])
    order = list(range(len(G)))
    r.shuffle(order)
    a1, a2 = argv(G), argv(G, order)
    cases = [core.Case(a1, data), core.Case(a2, data)]
    if unit.get("file_cuts") is not None:
        texts = [jm.dumps(v).encode("utf-8") for v in unit["inputs"]]
        b = [0] + list(unit["file_cuts"]) + [len(texts)]
        files = [("in%d.json" % (len(b) - i), b"\n".join(texts[b[i]:b[i + 1]])) for i in range(len(b) - 1)]
        cases[1] = core.Case(["@D@/" + nme for nme, _ in files] + a2, b"", files=files)
        if len(files) == 1 and unit["shuffle_seed"] % 3 == 0:
            # ... or from the only file of a directory argument ("all its files will be used", whatever they are called)
            nme = (".hidden.json", "sub/.in.json", ".d/in.json", "plain")[(unit["shuffle_seed"] // 3) % 4]
            cases[1] = core.Case(["@D@/dd"] + a2, b"", files=[("dd/" + nme, files[0][1])])
            st.count("second_run_from_a_directory")
        st.count("second_run_from_files")
    csv_at = None
    if unit["selects"] and unit["group"] is None and not unit["merge"]:
        csv_at = len(cases)
        cases.append(core.Case(a1 + ["-o", "csv"], data))
    oa_pair = None
    if unit["only_oa"]:
        # --only-objects-and-arrays is "the same run on the input without its top-level scalars", also for what the stages can
        # see of a value's place in the input (&index, &index-in-file)
        ctxsel = ["--select=&index=ix", "--select=(| . &index-in-file)=ixf"]
        kept = "\n".join(jm.dumps(v) for v in unit["inputs"] if isinstance(v, (dict, list))).encode("utf-8")
        oa_pair = (len(cases), len(cases) + 1)
        cases.append(core.Case(a1 + ctxsel, data))
        cases.append(core.Case([a for a in a1 if a != "--only-objects-and-arrays"] + ctxsel, kept))
    obs = ctx.drv.run_many(cases)
    o1, o2 = obs[0], obs[1]
    if o1.result != "ok":
        if o1.result in ("timeout", "abort"):
            st.inconc("watchdog")
        elif o1.result == "panic":
            st.count("skipped_panic_is_C05")
        else:
            st.violation("generated-configuration-rejected", "a generated configuration was rejected: %s" % o1.errtext[:200], unit_json(unit), {"args": a1})
        return
    st.count("conclusive")
    if o2.result != "ok" or o2.stdout != o1.stdout:
        st.violation("argv-order-matters", "the order of options on the command line (or stdin vs files delivery) changes the output", unit_json(unit),
                     {"args_1": a1, "args_2": a2, "stdout_1": o1.stdout[:800], "stdout_2": o2.stdout[:800], "result_2": o2.result + " " + o2.errtext[:200]})
        return
    st.count("argv_permutations_compared")
    if oa_pair:
        oa, ob = obs[oa_pair[0]], obs[oa_pair[1]]
        if oa.result == "ok" and ob.result == "ok":
            st.count("only_oa_vs_scalar_free_input")
            if oa.stdout != ob.stdout:
                st.violation("only-oa-vs-scalar-free-input", "--only-objects-and-arrays differs from the same run on the input without its top-level scalars (input context selected)",
                             unit_json(unit), {"args": cases[oa_pair[0]].args, "stdout_flag": oa.stdout[:800], "stdout_scalar_free": ob.stdout[:800]})
                return
        elif (oa.result == "ok") != (ob.result == "ok") and "panic" not in (oa.result, ob.result) and not {"timeout", "abort"} & {oa.result, ob.result}:
            st.violation("only-oa-vs-scalar-free-input:result", "--only-objects-and-arrays: %s, scalar-free input: %s" % (oa.result, ob.result), unit_json(unit), {"args": cases[oa_pair[0]].args})
            return
    try:
        want = pipemodel.run(to_cfg(unit), unit["inputs"], core.FIXED_ENV)
        for w in want:
            em.to_plain(w)
    except em.Unspecified as e:
        st.count("unspecified")
        st.see("unspecified_reasons", str(e)[:60])
        return
    except RecursionError:
        st.count("unspecified")
        return
    try:
        rows = [jm.plain(x) for x in jm.read_rows(o1.stdout)]
    except jm.JsonError as e:
        if any(c04.has_nonfinite(w) for w in want):
            st.count("skipped_nonfinite_output_is_C02")
            return
        st.violation("unreadable-output", str(e), unit_json(unit), {"args": a1, "stdout": o1.stdout[:600]})
        return
    try:
        good = len(rows) == len(want) and all(em.matches(w, g) for w, g in zip(want, rows))
    except em.Unspecified:
        st.count("unspecified")
        return
    if not good:
        k = 0
        try:
            while k < min(len(rows), len(want)) and em.matches(want[k], rows[k]):
                k += 1
        except em.Unspecified:
            pass
        st.violation("pipeline-vs-model:" + stage_guess(unit), "output differs from the documented stage composition (first difference at row %d: %d rows expected, %d printed)" % (
            k, len(want), len(rows)), unit_json(unit), {"args": a1, "input": data[:1200], "expected": [em.to_plain(w) for w in want[k:k + 3]], "got": rows[k:k + 3]})
        return
    st.count("specified_cases")
    st.see("nontrivial", pattern(unit) + (len(want) > 0, len(want) != len(unit["inputs"])))
    st.see("option_patterns", pattern(unit))
    if csv_at is not None and obs[csv_at].result == "ok":
        lines = obs[csv_at].stdout.count(b"\n")
        st.count("csv_slices")
        if not any(isinstance(v, str) and ("\n" in v) for row in want if isinstance(row, dict) for v in row.values()) and lines != len(want) + 1:
            st.violation("csv-row-count", "csv output has %d lines for %d rows" % (lines, len(want)), unit_json(unit), None)
    h = o1.hooks or {}
    for stage, c in h.items():
        if stage != "regex" and c.get("processes"):
            st.count("stage_processed_" + stage, c["processes"])


def stage_guess(u):
    return "+".join(n for n, on in (("split", u["split"] is not None), ("filter", u["filter"] is not None), ("select", bool(u["selects"])), ("unique", u["unique"]),
                                   ("sort", bool(u["sorts"])), ("limit", bool(u["skip"]) or u["take"] is not None), ("group", u["group"] is not None),
                                   ("merge", u["merge"]), ("only_oa", u["only_oa"])) if on)


def unit_json(u):
    d = dict(u)
    d["macros"] = {k: c04.to_list(v) for k, v in u["macros"].items()}
    d["split"] = c04.to_list(u["split"]) if u["split"] is not None else None
    d["filter"] = c04.to_list(u["filter"]) if u["filter"] is not None else None
    d["group"] = c04.to_list(u["group"]) if u["group"] is not None else None
    d["selects"] = [[n, c04.to_list(e)] for n, e in u["selects"]]
    d["sorts"] = [[c04.to_list(e), desc] for e, desc in u["sorts"]]
    return d


def from_json(d):
    u = dict(d)
    f = c04.from_list
    u["macros"] = {k: f(v) for k, v in d["macros"].items()}
    u["split"] = f(d["split"]) if d["split"] is not None else None
    u["filter"] = f(d["filter"]) if d["filter"] is not None else None
    u["group"] = f(d["group"]) if d["group"] is not None else None
    u["selects"] = [(n, f(e)) for n, e in d["selects"]]
    u["sorts"] = [(f(e), desc) for e, desc in d["sorts"]]
    return u


def worker(ctx):
    st = ctx.stats
    for i in range(ctx.params["units_per_worker"]):
        if ctx.expired():
            st.count("stopped_by_deadline")
            break
        unit = gen_unit(ctx.rng)
        run_unit(ctx, unit)
        st.count("units")
        if i < 2 and ctx.idx == 0:
            st.sample({"args": argv(option_groups(unit)), "inputs": unit["inputs"][:1]})


def run(env):
    quick = env.tier == "quick"
    stats = core.run_workers(__name__, "worker", PROP, env.tier, env.seed, env.driver, env.hooks_on,
                             50 if quick else 700, {"units_per_worker": 2000 if quick else 60000})
    return core.finish(PROP, env.tier, env.seed, LEVEL, stats, env.t0, RULE, min_conclusive=5000 if quick else 50000,
                       assumptions=["vf/pipemodel.py is the documented composition; expressions come from a core sub-grammar whose functions C04 checks separately",
                                    "selected names are modelled as unavailable (nothing) in --filter and --split-by, as documented"])


def replay(env, unit):
    return replay_unit(env, run_unit, from_json(unit))
