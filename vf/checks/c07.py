"""C07 Sorting: one total order, permutation, stable, multi-key, direction-aware.

(a) exhaustive comparator matrix: all ordered pairs of a ~120-value universe evaluated by jawk for < <= > >= = != in one run;
    Python checks the order axioms over all triples, mutual consistency of the six operators and agreement with the documented
    order wherever the documents define it (object-vs-object: only that it is a strict total order compatible with =).
(b) --sort-by with 1-3 keys and directions against a stable sort under that comparator (absent-key rows dropped).
(c) sort, sort_unique, sort_by, sort_by_values, sort_by_values_by, sort_by_keys against the same comparator.
"""
import functools
import random

from .. import core, jsonmodel as jm
from ..main import replay_unit

PROP = "C07"
LEVEL = "exploration"
RULE = ("universe of ~120 JSON values of all types with many ties (1 / 1.0 / 1e0, equal strings with different escapes, nested equal "
        "collections; numbers |n| < 2^53 or non-integral): all ordered pairs x 6 operators (exhaustive), all triples for transitivity; random "
        "sequences <= 40 rows x 1-3 sort keys x ASC/DESC/omitted in any letter case and both spellings; the six sort functions. "
        "distinct_nontrivial = distinct (kind, key-type pattern, direction pattern, has-ties, has-absent) among sorts with >= 2 sortable rows "
        "+ pairs checked")

UNIVERSE = [
    "null", "false", "true",
    '""', '"a"', '"\\u0061"', '"A"', '"ab"', '"b"', '"B"', '"aa"', '"a "', '" a"', '"0"', '"1"', '"10"', '"9"', '"é"', '"\\u00e9"', '"e"', '"z"', '"~"',
    '"\\u007f"', '"\\u0080"', '"日本"', '"日"', '"\\ud7ff"', '"\\ue000"', '"\\uffff"', '"a\\u0000"', '"a\\n"', '"\\n"', '"\\t"', '"/"', '"\\/"', '"\\""',
    "0", "0.0", "-0", "-0.0", "0e0", "-0e3", "1", "1.0", "1e0", "10e-1", "2", "-1", "-1.0", "-2", "0.5", "5e-1", "-0.5", "1.5", "2.5", "10", "9", "100", "1e2", "99.99", "1e-7",
    "-1e-7", "3.141592653589793", "1e300", "-1e300", "5e-324", "1.7976931348623157e308", "9007199254740991", "-9007199254740991", "123456.789",
    "0.1", "0.2", "0.30000000000000004", "1e21", "1.5e20",
    # integers at the ends of the 64-bit ranges (each is a double of its own, so every reading of "numeric order" agrees)
    "9223372036854775808", "-9223372036854775808", "4611686018427387904", "-4611686018427387904", "13835058055282163712",
    "{}", '{"a":1}', '{"a":1.0}', '{"a":2}', '{"b":1}', '{"a":null}', '{"a":1,"b":2}', '{"a":1,"b":3}', '{"a":2,"b":0}', '{"a":[1]}', '{"a":{"b":1}}',
    '{"":0}', '{"é":1}', '{"a":"x"}', '{"a":true}', '{"c":0,"d":0,"e":0}',
    "[]", "[null]", "[false]", "[true]", "[0]", "[1]", "[1.0]", "[1,2]", "[1,2,3]", "[1,3]", "[2]", "[2,1]", '["a"]', '["a","b"]', '["b"]', "[[]]", "[[1]]",
    "[[1],2]", "[{}]", '[{"a":1}]', '[{"a":1.0}]', "[[],[]]", "[1,null]", "[null,1]", '[1,"a"]', '["a",1]', "[true,false]", "[0.5]", "[-1]", '[""]',
]


def model_rank(v):
    if v is None:
        return 0
    if v is False:
        return 1
    if v is True:
        return 2
    if isinstance(v, str):
        return 3
    if isinstance(v, (int, float)):
        return 4
    if isinstance(v, dict):
        return 5
    return 6


def model_cmp(a, b):
    """-1/0/1 or None where the documents do not define the order (two different objects)."""
    ra, rb = model_rank(a), model_rank(b)
    if ra != rb:
        return -1 if ra < rb else 1
    if ra <= 2:
        return 0
    if ra in (3, 4):
        return -1 if a < b else (1 if a > b else 0)
    if ra == 6:
        for x, y in zip(a, b):
            c = model_cmp(x, y)
            if c is None:
                return None
            if c:
                return c
        return -1 if len(a) < len(b) else (1 if len(a) > len(b) else 0)
    if model_eq(a, b):
        return 0
    return None


def model_eq(a, b):
    ra, rb = model_rank(a), model_rank(b)
    if ra != rb:
        return False
    if ra <= 2:
        return True
    if ra in (3, 4):
        return a == b
    if ra == 6:
        return len(a) == len(b) and all(model_eq(x, y) for x, y in zip(a, b))
    return len(a) == len(b) and all(k in b and model_eq(v, b[k]) for k, v in a.items())


from ..exprmodel import normalise as _normalise
VALUES = [_normalise(jm.plain(jm.loads(t))) for t in UNIVERSE]


def run_matrix(ctx, report):
    """Observe the comparator on all ordered pairs.  Returns cmp matrix (list of lists of -1/0/1) or None."""
    st = ctx.stats
    n = len(UNIVERSE)
    lines = []
    for i in range(n):
        for j in range(n):
            lines.append("[%s,%s]" % (UNIVERSE[i], UNIVERSE[j]))
    args = ["--select=(< #0 #1)=lt", "--select=(<= #0 #1)=le", "--select=(> #0 #1)=gt", "--select=(>= #0 #1)=ge", "--select=(= #0 #1)=eq",
            "--select=(!= #0 #1)=ne", "--style", "consise"]
    o = ctx.drv.run(core.Case(args, "\n".join(lines).encode("utf-8")))
    if o.result != "ok":
        if report:
            st.violation("matrix-run:" + o.result, "comparator matrix run failed: %s %s" % (o.errtext, o.panicinfo), {"kind": "matrix"}, None)
        return None
    rows = [jm.plain(r) for r in jm.read_rows(o.stdout)]
    if len(rows) != n * n:
        if report:
            st.violation("matrix-rows", "%d rows for %d pairs" % (len(rows), n * n), {"kind": "matrix"}, None)
        return None
    M = [[0] * n for _ in range(n)]
    for idx, r in enumerate(rows):
        i, j = divmod(idx, n)
        lt, le, gt, ge, eq, ne = (r.get(k) for k in ("lt", "le", "gt", "ge", "eq", "ne"))
        vals = (lt, le, gt, ge, eq, ne)
        def bad(sig, msg):
            st.violation(sig, "%s for a=%s b=%s: %r" % (msg, UNIVERSE[i], UNIVERSE[j], r), {"kind": "matrix", "a": UNIVERSE[i], "b": UNIVERSE[j]}, None)
        if not all(isinstance(x, bool) for x in vals):
            if report:
                bad("comparison-not-boolean", "a comparison of two present values is not a boolean")
            return None
        # mutual consistency of the six operators
        ok = (le == (lt or eq)) and (ge == (gt or eq)) and (ne == (not eq)) and (int(lt) + int(gt) + int(eq) == 1)
        if not ok:
            if report:
                bad("operators-inconsistent", "< <= > >= = != do not describe one relation")
            return None
        M[i][j] = -1 if lt else (1 if gt else 0)
        m = model_cmp(VALUES[i], VALUES[j])
        if m is not None and m != M[i][j]:
            if report:
                bad("order-vs-documentation", "documented order says %s" % {-1: "a < b", 0: "a = b", 1: "a > b"}[m])
            return None
        if model_eq(VALUES[i], VALUES[j]) != bool(eq):
            if report:
                bad("equality-vs-documentation", "documented equality says %s" % model_eq(VALUES[i], VALUES[j]))
            return None
    if report:
        st.count("pairs_checked", n * n)
        # axioms over all triples
        for i in range(n):
            if M[i][i] != 0:
                st.violation("not-irreflexive", "a < a or a > a for %s" % UNIVERSE[i], {"kind": "matrix"}, None)
                return None
            for j in range(n):
                if M[i][j] != -M[j][i]:
                    st.violation("not-antisymmetric", "cmp(a,b) != -cmp(b,a) for %s, %s" % (UNIVERSE[i], UNIVERSE[j]), {"kind": "matrix"}, None)
                    return None
        less = [set(j for j in range(n) if M[i][j] < 0) for i in range(n)]
        eqs = [set(j for j in range(n) if M[i][j] == 0) for i in range(n)]
        triples = 0
        for a in range(n):
            for b in less[a]:
                # a < b : everything above b is above a; everything equal to b is above a
                if not (less[b] <= less[a]) or not (eqs[b] <= less[a]):
                    st.violation("not-transitive", "a < b, b <= c but not a < c around a=%s b=%s" % (UNIVERSE[a], UNIVERSE[b]), {"kind": "matrix"}, None)
                    return None
                triples += n
            for b in eqs[a]:
                if eqs[b] != eqs[a]:
                    st.violation("equality-not-transitive", "= is not an equivalence around %s, %s" % (UNIVERSE[a], UNIVERSE[b]), {"kind": "matrix"}, None)
                    return None
                triples += n
        st.count("triples_checked", triples)
    return M


PERMUTED = ['{"a":1,"b":2}', '{"b":2,"a":1}', '{"x":{"a":1,"b":2}}', '{"x":{"b":2,"a":1}}', '[{"a":1,"b":2}]', '[{"b":2,"a":1}]', '{"a":1,"b":2,"c":3}',
            '{"c":3,"b":2,"a":1}', '{"b":2,"c":3,"a":1}', '[1,{"k":"v","l":null}]', '[1,{"l":null,"k":"v"}]', '{"a":1}', '[2]', '"s"',
            # objects with the same members that lie between the two spellings of another one
            '{"a":1,"b":3}', '{"b":1,"a":1}', '{"a":1,"b":1}', '{"a":0,"b":2}', '{"b":3,"a":1}', '{"x":{"a":1,"b":3}}', '[{"a":1,"b":3}]', '{"a":1,"b":2,"c":4}']


def run_permuted(ctx):
    """Objects that differ only in member order: the documents do not say how they are ordered, but < <= > >= must still
    describe ONE relation (<= is "not >", >= is "not <", never both < and >), and that relation must be the one --sort-by uses."""
    st = ctx.stats
    n = len(PERMUTED)
    lines = ["[%s,%s]" % (PERMUTED[i], PERMUTED[j]) for i in range(n) for j in range(n)]
    args = ["--select=(< #0 #1)=lt", "--select=(<= #0 #1)=le", "--select=(> #0 #1)=gt", "--select=(>= #0 #1)=ge", "--style", "consise"]
    o = ctx.drv.run(core.Case(args, "\n".join(lines).encode()))
    if o.result != "ok":
        st.inconc("permuted_matrix_failed")
        return
    rows = [jm.plain(r) for r in jm.read_rows(o.stdout)]
    rel = {}
    for idx, r in enumerate(rows):
        i, j = divmod(idx, n)
        lt, le, gt, ge = (r.get(k) for k in ("lt", "le", "gt", "ge"))
        if not all(isinstance(x, bool) for x in (lt, le, gt, ge)) or (lt and gt) or le != (not gt) or ge != (not lt):
            st.violation("operators-inconsistent-permuted", "< <= > >= do not describe one relation for a=%s b=%s: %r" % (PERMUTED[i], PERMUTED[j], r),
                         {"kind": "permuted", "a": PERMUTED[i], "b": PERMUTED[j]}, None)
            return
        rel[(i, j)] = -1 if lt else 1 if gt else 0
    for i in range(n):
        for j in range(n):
            if rel[(i, j)] != -rel[(j, i)]:
                st.violation("not-antisymmetric-permuted", "cmp(a,b) != -cmp(b,a) for %s, %s" % (PERMUTED[i], PERMUTED[j]), {"kind": "permuted"}, None)
                return
    # ... and it is a (pre)order: transitive
    for i in range(n):
        for j in range(n):
            if rel[(i, j)] > 0:
                continue
            for k in range(n):
                if rel[(j, k)] <= 0 and (rel[(i, k)] > 0 or ((rel[(i, j)] < 0 or rel[(j, k)] < 0) and rel[(i, k)] >= 0)):
                    st.violation("not-transitive-permuted", "a <= b and b <= c but not a <= c (or a strict step lost) for a=%s b=%s c=%s" % (PERMUTED[i], PERMUTED[j], PERMUTED[k]),
                                 {"kind": "permuted"}, {"ab": rel[(i, j)], "bc": rel[(j, k)], "ac": rel[(i, k)]})
                    return
    # sort_unique over values whose equality the documents do fix (numbers by value: 0, -0, 0.0 are one number): the result
    # is strictly increasing
    ou = ctx.drv.run(core.Case(["--select=(sort_unique .)=u", "--style", "consise"], b'[3,0,1,-0,0.0,1.0,"x",null,1.5,-0.0,3.0,"x",[0],[-0],[0.0]]'))
    if ou.result == "ok":
        u = jm.plain(jm.read_rows(ou.stdout)[0]).get("u")
        if u != [None, "x", 0, 1, 1.5, 3, [0]]:
            st.violation("sort-unique-keeps-equal-values", "(sort_unique [3,0,1,-0,0.0,1.0,\"x\",null,1.5,-0.0,3.0,\"x\",[0],[-0],[0.0]]) = %s" % jm.dumps(u), {"kind": "permuted"}, {"u": u})
            return
        st.count("sort_unique_partition_checked")
    # the same relation decides --sort-by: sort all values in two arrival orders
    recs = ['{"k":%s,"i":%d}' % (t, i) for i, t in enumerate(PERMUTED)]
    o1, o2 = ctx.drv.run_many([core.Case(["--sort-by", ".k", "--select", ".i=i", "--style", "consise"], "\n".join(recs).encode()),
                               core.Case(["--sort-by", ".k", "--select", ".i=i", "--style", "consise"], "\n".join(reversed(recs)).encode())])
    if o1.result != "ok" or o2.result != "ok":
        st.inconc("permuted_sort_failed")
        return
    for o, arrival in ((o1, list(range(n))), (o2, list(range(n - 1, -1, -1)))):
        got = [jm.plain(r)["i"] for r in jm.read_rows(o.stdout)]
        pos = {v: k for k, v in enumerate(arrival)}
        import functools
        want = sorted(arrival, key=functools.cmp_to_key(lambda a, b: rel[(a, b)] or (pos[a] - pos[b])))
        if got != want:
            st.violation("sort-vs-operators-permuted", "--sort-by orders member-permuted objects differently from < and >", {"kind": "permuted"},
                         {"got": got, "want": want})
            return
    st.count("permuted_pairs_checked", n * n)


def spell_dir(rng, desc):
    w = "DESC" if desc else rng.choice(["ASC", ""])
    if not w:
        return ""
    w = "".join(ch.upper() if rng.random() < 0.5 else ch.lower() for ch in w)
    return rng.choice(["=", " ", " = ", "  "]) + w


def gen_unit(rng):
    kind = rng.choice(["option", "option", "option", "sort", "sort_unique", "sort_by", "sort_by_values", "sort_by_values_by", "sort_by_keys", "by_outer"])
    if kind == "by_outer":
        # the key of a value is looked up in the ENCLOSING record (another ranking in every record): whatever the sort keeps
        # from one record to the next must not leak
        names = ["a", "b", "c", "d", "e"][:rng.choice((2, 3, 5))]
        recs = []
        for _ in range(rng.choice((2, 3, 6))):
            ranks = {nm: rng.choice((0, 1, 2, 3)) for nm in names}
            recs.append({"rank": ranks, "o": {"m%d" % i: nm for i, nm in enumerate(rng.sample(names, len(names)))}, "l": rng.sample(names, len(names))})
        return {"kind": kind, "recs": recs, "seed": rng.getrandbits(32)}
    n = len(UNIVERSE)
    pool = rng.sample(range(n), rng.choice((2, 3, 5, 8, 20)))
    if rng.random() < 0.3:
        # force ties / near ties
        pool += [UNIVERSE.index(x) for x in ("1", "1.0", "1e0", '"a"', '"\\u0061"', "[1]", "[1.0]")]
    m = rng.choice((0, 1, 2, 3, 5, 8, 13, 40))
    u = {"kind": kind, "seed": rng.getrandbits(32)}
    if kind == "option":
        nk = rng.choice((1, 1, 2, 3))
        rows = []
        for s in range(m):
            r = {"s": s}
            for k in range(nk):
                if rng.random() < 0.9:
                    r["k%d" % k] = rng.choice(pool)
            rows.append(r)
        u["rows"] = rows
        u["keys"] = [(k, rng.random() < 0.4) for k in range(nk)]
    elif kind in ("sort", "sort_unique"):
        u["items"] = [rng.choice(pool) for _ in range(m)]
    elif kind in ("sort_by", "sort_by_values_by"):
        u["items"] = [(rng.choice(pool) if (rng.random() < 0.85 or kind == "sort_by_values_by") else None) for _ in range(m)]
    elif kind == "sort_by_values":
        u["items"] = [rng.choice(pool) for _ in range(m)]
    else:
        keys = ["a", "b", "B", "", "é", "z", "aa", "a b", "日本", "10", "9", "~", "A", "ÿ", "k\"q", "Ā"]
        rng.shuffle(keys)
        u["keys"] = keys[:rng.randint(0, len(keys))]
    return u


def run_unit(ctx, unit):
    st = ctx.stats
    if unit["kind"] == "matrix":
        run_matrix(ctx, True)
        return
    if unit.get("kind") == "permuted":
        run_permuted(ctx)
        return
    M = getattr(ctx, "matrix", None)
    if M is None:
        M = ctx.matrix = run_matrix(ctx, False)
        if M is None:
            st.inconc("matrix_unavailable")
            return
    rng = random.Random(unit["seed"])
    kind = unit["kind"]

    def cmpU(i, j):
        return M[i][j]

    def fail(sig, msg, detail):
        st.violation(sig, msg, unit, detail)

    if kind == "by_outer":
        recs = unit["recs"]
        data = "\n".join(jm.dumps(r) for r in recs)
        args = ["--select=(keys (sort_by_values_by .o (get ^.rank .)))=x", "--select=(sort_by .l (get ^.rank .))=y",
                "--select=(map (sort_by (entries .o) (get ^.rank .value)) .key)=z",
                # the key function sees what its caller sees: variables, macros (also from --set), bound at the place of the call
                "--select=(set \"r\" .rank (keys (sort_by_values_by .o (get :r .))))=x2",
                "--select=(define \"kf\" (get ^.rank .) (keys (order_by_values_by .o @kf)))=x3",
                "--set", "@pk=(get ^.rank .)", "--select=(keys (sort_by_values_by .o @pk))=x4",
                "--select=(set \"r\" .rank (sort_by .l (get :r .)))=y2"]
        o = ctx.drv.run(core.Case(args, data.encode()))
        if o.result != "ok":
            fail("sort-fn-run:" + o.result, "run failed: %s %s" % (o.errtext, o.panicinfo), {"args": args})
            return
        st.count("conclusive")
        rows = [jm.plain(x) for x in jm.read_rows(o.stdout)]
        for r, got in zip(recs, rows):
            rk = r["rank"]
            wx = [k for k, v in sorted(r["o"].items(), key=lambda kv: rk[kv[1]])]
            wy = sorted(r["l"], key=lambda v: rk[v])
            if got.get("x") != wx or got.get("y") != wy or got.get("z") != wx or any(got.get(c) != wx for c in ("x2", "x3", "x4")) or got.get("y2") != wy:
                fail("sort-function:by-outer-key", "sort_by_values_by / sort_by with a key looked up in the enclosing record is not ordered by this record's ranks",
                     {"record": r, "want_x": wx, "want_y": wy, "got": got})
                return
        st.count("function_sorts", len(recs))
        st.see("nontrivial", ("by_outer", len(recs), len(recs[0]["l"])))
        return
    if kind == "option":
        rows = unit["rows"]
        lines = []
        # the members the keys read are called k0, k1, ... or, now and then, something that ends like a direction word
        # (`.desc`, `.price_asc`): a key without a direction is that member, ascending
        alias = {}
        if rng.random() < 0.15:
            for k, nm in zip(sorted(set(k for k, _ in unit["keys"])), rng.sample(["desc", "asc", "price_asc", "nameDesc", "xASC", "DESC", "k desc".replace(" ", "_")], 3)):
                alias["k%d" % k] = nm
        for r in rows:
            parts = ['"s":%d' % r["s"]] + ['"%s":%s' % (alias.get(k, k), UNIVERSE[v]) for k, v in r.items() if k != "s"]
            lines.append("{" + ",".join(parts) + "}")
        args = []
        for k, desc in unit["keys"]:
            # the key is an expression like any other: written with a call, with commas between arguments, with a comma in a literal
            key = rng.choice((".k%d", ".k%d", ".k%d", '(get . "k%d")', "(default .k%d, .k%d)", '(? true .k%d "x, y")', "(| . .k%d)")).replace("k%d", alias.get("k%d" % k, "k%d" % k))
            args.append("--sort-by=%s%s" % (key, spell_dir(rng, desc)))
        args += ["--select=.s=s"]
        # a bounded sort (the rows beyond skip+take may be dropped while sorting) is the same order, cut
        lim = None
        if rng.random() < 0.35:
            lim = (rng.choice((0, 0, 1, 2, 5)), rng.choice((1, 2, 3, 5, 8, 20)))
            if lim[0]:
                args += ["--skip", str(lim[0])]
            args += ["--take", str(lim[1])]
        o = ctx.drv.run(core.Case(args, "\n".join(lines).encode("utf-8")))
        if o.result != "ok":
            fail("sort-run:" + o.result, "sort run failed: %s %s" % (o.errtext, o.panicinfo), {"args": args})
            return
        st.count("conclusive")
        got = [r.get("s") for r in (jm.plain(x) for x in jm.read_rows(o.stdout))]
        sortable = [r for r in rows if all(("k%d" % k) in r for k, _ in unit["keys"])]

        def c(a, b):
            for k, desc in unit["keys"]:
                x = cmpU(a["k%d" % k], b["k%d" % k])
                if desc:
                    x = -x
                if x:
                    return x
            return a["s"] - b["s"]
        want = [r["s"] for r in sorted(sortable, key=functools.cmp_to_key(c))]
        if lim:
            want = want[lim[0]:lim[0] + lim[1]]
            st.count("bounded_sorts")
        if got != want:
            fail("sort-by-order:%dkeys" % len(unit["keys"]), "--sort-by result is not the stable multi-key sort of the sortable rows", {
                "args": args, "want_serials": want, "got_serials": got,
                "rows": [dict((k, (UNIVERSE[v] if k != "s" else v)) for k, v in r.items()) for r in rows[:40]]})
            return
        ties = len(set(tuple(r["k%d" % k] for k, _ in unit["keys"]) for r in sortable)) < len(sortable)
        if len(sortable) >= 2:
            st.see("nontrivial", ("option", len(unit["keys"]), tuple(d for _, d in unit["keys"]), ties, len(sortable) < len(rows),
                                  tuple(sorted(set(model_rank(VALUES[r["k0"]]) for r in sortable)))))
        st.count("sorts_with_ties" if ties else "sorts_without_ties")
        if len(sortable) < len(rows):
            st.count("sorts_with_absent_keys")
        return
    # functions
    if kind in ("sort", "sort_unique"):
        items = unit["items"]
        data = "[" + ",".join(UNIVERSE[i] for i in items) + "]"
        expr = "(%s .)" % kind
        srt = sorted(range(len(items)), key=functools.cmp_to_key(lambda a, b: cmpU(items[a], items[b]) or (a - b)))
        want_idx = [items[i] for i in srt]
        if kind == "sort_unique":
            ded = []
            for i in want_idx:
                if not ded or cmpU(ded[-1], i) != 0:
                    ded.append(i)
            want_idx = ded
        want = [VALUES[i] for i in want_idx]
    elif kind == "sort_by":
        items = unit["items"]
        data = "[" + ",".join(('{"s":%d,"k":%s}' % (s, UNIVERSE[i])) if i is not None else ('{"s":%d}' % s) for s, i in enumerate(items)) + "]"
        expr = "(map (sort_by . .k) .s)"
        absent = [s for s, i in enumerate(items) if i is None]
        present = [s for s, i in enumerate(items) if i is not None]
        present.sort(key=functools.cmp_to_key(lambda a, b: cmpU(items[a], items[b]) or (a - b)))
        want = absent + present
    elif kind == "sort_by_values":
        items = unit["items"]
        data = "{" + ",".join('"m%d":%s' % (s, UNIVERSE[i]) for s, i in enumerate(items)) + "}"
        expr = "(keys (sort_by_values .))"
        order = sorted(range(len(items)), key=functools.cmp_to_key(lambda a, b: cmpU(items[a], items[b]) or (a - b)))
        want = ["m%d" % s for s in order]
    elif kind == "sort_by_values_by":
        items = unit["items"]
        data = "{" + ",".join('"m%d":{"k":%s}' % (s, UNIVERSE[i]) for s, i in enumerate(items)) + "}"
        expr = "(keys (sort_by_values_by . .k))"
        order = sorted(range(len(items)), key=functools.cmp_to_key(lambda a, b: cmpU(items[a], items[b]) or (a - b)))
        want = ["m%d" % s for s in order]
    else:
        keys = unit["keys"]
        data = "{" + ",".join("%s:%d" % (jm.dump_string(k), i) for i, k in enumerate(keys)) + "}"
        expr = "(keys (sort_by_keys .))"
        want = sorted(keys)
    o = ctx.drv.run(core.Case(["--select=%s=x" % expr], data.encode("utf-8")))
    if o.result != "ok":
        fail("sort-fn-run:" + o.result, "run failed: %s %s" % (o.errtext, o.panicinfo), {"expr": expr})
        return
    st.count("conclusive")
    rows = [jm.plain(x) for x in jm.read_rows(o.stdout)]
    got = rows[0].get("x") if rows else None
    from .. import exprmodel as _em
    if not (got is not None and _em.matches(want, got)):
        fail("sort-function:" + kind, "%s is not the stable sort under the one total order" % expr, {"input": data[:1500], "want": want, "got": got})
        return
    if len(want) >= 2:
        st.see("nontrivial", (kind, len(want) > 5, len(set(map(jm.dumps, want))) < len(want)))
    st.count("function_sorts")


def worker(ctx):
    st = ctx.stats
    ctx.matrix = run_matrix(ctx, ctx.idx == 0)
    if ctx.idx == 0:
        run_permuted(ctx)
    if ctx.idx == 0:
        st.sample({"universe_size": len(UNIVERSE), "universe_head": UNIVERSE[:12]})
    if ctx.matrix is None:
        if ctx.idx != 0:
            st.inconc("matrix_unavailable")
        return
    st.count("conclusive")
    for i in range(ctx.params["units_per_worker"]):
        if ctx.expired():
            st.count("stopped_by_deadline")
            break
        unit = gen_unit(ctx.rng)
        run_unit(ctx, unit)
        st.count("units")
        if i < 2 and ctx.idx == 0:
            st.sample({k: v for k, v in unit.items() if k != "rows"} if unit["kind"] == "option" else unit)


def run(env):
    quick = env.tier == "quick"
    stats = core.run_workers(__name__, "worker", PROP, env.tier, env.seed, env.driver, env.hooks_on,
                             45 if quick else 500, {"units_per_worker": 6000 if quick else 40000})
    pairs = stats.counters.get("pairs_checked", 0)
    return core.finish(PROP, env.tier, env.seed, LEVEL, stats, env.t0, RULE, min_conclusive=2000 if quick else 20000,
                       exhaustive=bool(pairs), extra_distinct=pairs,
                       extra={"explanation": "exhaustive refers to the comparator matrix: all %d ordered pairs of the universe and all triples" % pairs},
                       assumptions=["object-vs-object order is taken from the observed relation after it was checked to be a strict total order compatible with =",
                                    "integers with |n| >= 2^53 (other than the five at the ends of the 64-bit ranges, each a double of its own) and objects differing only in member order are outside the property's domain"])


def replay(env, unit):
    return replay_unit(env, run_unit, unit)
