"""C02 Every JSON output row is valid JSON for its value in all styles; a fixpoint.

Oracles
 (a) strict independent reader over stdout framed by the configured row separator -> the values being output
     (identity pipeline: the input values; --merge: their array; --select of an arithmetic expression: IEEE result);
 (b) style predicates on the raw bytes: concise has no whitespace outside strings, one-line has no CR/LF at all,
     pretty puts every element / member on its own line with indentation = depth * u for one u > 0 per run;
 (c) all 3 styles x 2 --utf8-strings settings are compared against the same expectation (so they agree);
 (d) fixpoint: stdout fed back as stdin with the same options reproduces stdout byte for byte (whitespace row
     separators only: another separator is not part of a JSON value stream).
"""
import math
import re

from .. import core, findings, jsonmodel as jm, streams
from ..main import replay_unit

PROP = "C02"
LEVEL = "exploration"
RULE = ("seeded generator: value sets over all string classes (C0, DEL, U+2028/9, U+FFFF, astral rare), boundary numbers and "
        "arithmetic results, printed under 3 styles x 2 utf8 settings x 9 row separators through {identity, --merge, "
        "--select arithmetic}; distinct_nontrivial = distinct (pipeline, separator, value-class set, string-class set) "
        "combinations whose output contained at least one row")

STYLES = ("one-line", "consise", "pretty")
SEPS = ["\n", "\r\n", " ", "\n\n", "\t", "---\n", ";\n", "\n \n", "\r",
        # separators that contain a backslash are taken literally (no unescaping of \n, \t, \\)
        "\\n", ";\\;", "\\t ", "C:\\rows\\ "]
_STR = re.compile(rb'"(?:[^"\\]|\\.)*"')


def strip_strings(row):
    return _STR.sub(b'""', row)


def check_pretty(row):
    """Returns (ok, why, unit_indent).  Structure: every element/member of a non-empty collection starts a line,
    indented depth*u; the closing bracket of a non-empty collection starts a line at (depth-1)*u."""
    s = row
    n = len(s)
    indents = []   # (depth, leading_ws_len)
    # walk tokens
    i = 0
    stack = []     # each: [kind, count]
    expect_elem = True

    def line_lead(pos):
        j = pos
        while j > 0 and s[j - 1:j] != b"\n":
            j -= 1
        lead = s[j:pos]
        if lead.strip(b" \t") != b"":
            return None
        return len(lead)

    def mark_start(pos):
        if stack:
            lead = line_lead(pos)
            if lead is None:
                return "element at byte %d does not start its line" % pos
            indents.append((len(stack), lead))
        return None

    while i < n:
        c = s[i:i + 1]
        if c in b" \t\r\n":
            i += 1
            continue
        if c in b"[{":
            # an opener is itself an element of its parent (unless it is a member value: then the key started the line)
            if stack and stack[-1][0] == b"[":
                w = mark_start(i)
                if w:
                    return False, w, None
            elif not stack:
                pass
            stack.append([c, 0])
            i += 1
            continue
        if c in b"]}":
            if not stack:
                return False, "unbalanced", None
            kind, count = stack.pop()
            if count > 0 or True:
                # empty collections are written {} / [] with nothing between
                pass
            j = i - 1
            while j >= 0 and s[j:j + 1] in b" \t\r\n":
                j -= 1
            empty = s[j:j + 1] in b"[{" and j >= 0
            if empty:
                if j != i - 1:
                    return False, "whitespace inside an empty collection", None
            else:
                lead = line_lead(i)
                if lead is None:
                    return False, "closing bracket at byte %d does not start its line" % i, None
                indents.append((len(stack), lead))
            i += 1
            continue
        if c == b",":
            i += 1
            continue
        if c == b":":
            i += 1
            continue
        if c == b'"':
            m = _STR.match(s, i)
            if not m:
                return False, "bad string", None
            # is it a key or an element?
            k = m.end()
            while k < n and s[k:k + 1] in b" \t\r\n":
                k += 1
            is_key = stack and stack[-1][0] == b"{" and s[k:k + 1] == b":"
            prev = i - 1
            while prev >= 0 and s[prev:prev + 1] in b" \t\r\n":
                prev -= 1
            after_colon = prev >= 0 and s[prev:prev + 1] == b":"
            if is_key or (stack and stack[-1][0] == b"[" and not after_colon):
                w = mark_start(i)
                if w:
                    return False, w, None
            i = m.end()
            continue
        # scalar token
        m = re.compile(rb"[^\s,\]\}:]+").match(s, i)
        if stack and stack[-1][0] == b"[":
            w = mark_start(i)
            if w:
                return False, w, None
        i = m.end()
    if stack:
        return False, "unbalanced", None
    u = None
    for d, lead in indents:
        if d == 0:
            if lead != 0:
                return False, "top-level closing bracket indented", None
            continue
        if u is None:
            if lead % d != 0 or lead == 0:
                return False, "indentation %d at depth %d" % (lead, d), None
            u = lead // d
        if lead != d * u:
            return False, "indentation %d at depth %d with unit %d" % (lead, d, u), None
    return True, None, u


def norm_float(x):
    """From<f64> for JsonValue as documented: integral results are integers."""
    if x != x or x in (math.inf, -math.inf):
        return x
    if x == int(x) and -(2 ** 63) < x < 2 ** 64:
        return int(x)
    return x


ARITH = {"+": lambda a, b: a + b, "-": lambda a, b: a - b, "*": lambda a, b: a * b,
         "/": lambda a, b: (a / b) if b != 0 else None}
EXTREMES = [1e200, -1e200, 1.7976931348623157e308, 5e-324, 2 ** 64 - 1, -(2 ** 63), 0.1, 3, 0, 1e308, -1e308, 2.5, 7, 2 ** 53]


def gen_unit(rng):
    sep = rng.choice(SEPS)
    r = rng.random()
    if r < 0.2:
        # arithmetic results
        rows = []
        parts = []
        op = rng.choice(list(ARITH))
        for _ in range(rng.randint(1, 8)):
            a = rng.choice(EXTREMES) if rng.random() < 0.6 else jm.gen_number(rng)
            b = rng.choice(EXTREMES) if rng.random() < 0.6 else jm.gen_number(rng)
            parts.append(jm.dumps({"a": a, "b": b}))
            try:
                v = ARITH[op](float(a), float(b))
            except OverflowError:
                v = math.inf
            rows.append(v)
        return {"pipeline": "arith", "op": op, "sep": sep, "input": "\n".join(parts).encode(), "results": rows}
    tags = set()
    classes = None
    if rng.random() < 0.3:
        classes = [rng.choice(jm.STRING_CLASSES[:-1])]
    gen = None
    if rng.random() < 0.15:
        # neighbouring rows that are equal for jawk's `=` without being the same value or text (members in another order,
        # 2^64-1 next to 2^64, -2^63 next to the double below it): each row is printed for itself
        queue = []
        pool = [2 ** 64 - 1, -(2 ** 63), {"id": 2 ** 64 - 1, "tags": []}, [2 ** 64 - 2], {"a": 1, "b": {"c": 2, "d": 3}}, [{"x": 1, "y": 2}], {"k": -(2 ** 63), "l": 1}]
        near = {2 ** 64 - 1: float(2 ** 64), 2 ** 64 - 2: float(2 ** 64), -(2 ** 63): -9223372036854777000.0}

        def other(v):
            if isinstance(v, dict):
                return {k: other(x) for k, x in reversed(list(v.items()))}
            if isinstance(v, list):
                return [other(x) for x in v]
            return near.get(v, v) if isinstance(v, int) and not isinstance(v, bool) else v

        def gen(r2):
            if queue:
                return queue.pop()
            v = r2.choice(pool) if r2.random() < 0.6 else jm.gen_value(r2, 0, 3, classes)
            if r2.random() < 0.6:
                a, b = (v, other(v)) if r2.random() < 0.5 else (other(v), v)
                queue.append(b)
                return a
            return v
    data, exp, spans, info = streams.gen_stream(rng, nvalues=rng.choice((0, 1, 2, 3, 5, 8, 20)), tags=tags, classes=classes, gen=gen)
    pipeline = "merge" if r < 0.35 else ("select" if r < 0.45 else ("select-dup" if r < 0.5 else "identity"))
    return {"pipeline": pipeline, "sep": sep, "input": data, "expected": exp}


def expected_rows(unit):
    p = unit["pipeline"]
    if p == "identity":
        return unit["expected"]
    if p == "merge":
        return [unit["expected"]]
    if p in ("select", "select-dup"):
        return [{"v": e} for e in unit["expected"]]
    rows = []
    for v in unit["results"]:
        if v is None:
            rows.append({})
        else:
            rows.append({"x": norm_float(v)})
    return rows


def args_for(unit, style, utf8):
    a = ["--style", style, "--row-seperator=" + unit["sep"]]
    if utf8:
        a.append("--utf8-strings")
    p = unit["pipeline"]
    if p == "merge":
        a.append("--merge")
    elif p == "select":
        a += ["--select", ".=v"]
    elif p == "select-dup":
        # the same value selected twice under one name: the row is still an object with one member "v"
        a += ["--select", ".=v", "--select", ".=v"]
    elif p == "arith":
        a += ["--select", "(%s .a .b)=x" % unit["op"]]
    return a


def nonfinite_model(unit, style, sep):
    """Known finding nonfinite-number: exact stdout when a non-finite result is printed as inf / -inf / NaN."""
    out = []
    for v in unit["results"]:
        if v is None:
            out.append("{}")
            continue
        nv = norm_float(v)
        if isinstance(nv, float) and (nv != nv or abs(nv) == math.inf):
            tok = "NaN" if nv != nv else ("inf" if nv > 0 else "-inf")
        else:
            return None if False else None
        if style == "consise":
            out.append('{"x":%s}' % tok)
        elif style == "one-line":
            out.append('{"x": %s}' % tok)
        else:
            out.append('{\n  "x": %s\n}' % tok)
    return out


def run_unit(ctx, unit):
    st = ctx.stats
    sep = unit["sep"].encode()
    exp = expected_rows(unit)
    cases = []
    for style in STYLES:
        for utf8 in (False, True):
            cases.append((style, utf8, core.Case(args_for(unit, style, utf8), unit["input"])))
    obs = ctx.drv.run_many([c for _, _, c in cases])
    second = []
    known = False
    for (style, utf8, case), o in zip(cases, obs):
        if o.result in ("timeout", "abort"):
            o, ok = ctx.drv.confirm(case, o)
            if not ok:
                st.inconc("watchdog_not_reproduced")
                continue
        cfg = "%s/%s" % (style, "utf8" if utf8 else "ascii")
        if o.result != "ok":
            st.violation("result:%s" % o.result, "%s: run failed: %s %s" % (cfg, o.errtext, o.panicinfo), unit,
                         {"args": case.args, "obs": o.brief()})
            return
        st.count("conclusive")
        # non-finite arithmetic results: split rows, judge the finite ones normally
        exp_here = exp
        stdout = o.stdout
        if unit["pipeline"] == "arith" and any(isinstance(e.get("x"), float) and (e["x"] != e["x"] or abs(e["x"]) == math.inf) for e in exp):
            # defect model: the non-finite rows are printed as inf/-inf/NaN, all others correctly
            chunks = stdout.split(sep) if sep else [stdout]
            ok_model = True
            finite_exp, finite_out = [], []
            # rows in pretty style contain newlines; rebuild rows by walking expectations
            pos = 0
            for e in exp:
                x = e.get("x")
                if isinstance(x, float) and (x != x or abs(x) == math.inf):
                    tok = "NaN" if x != x else ("inf" if x > 0 else "-inf")
                    if style == "consise":
                        txt = '{"x":%s}' % tok
                    elif style == "one-line":
                        txt = '{"x": %s}' % tok
                    else:
                        txt = '{\n  "x": %s\n}' % tok
                    b = txt.encode() + sep
                    if stdout[pos:pos + len(b)] != b:
                        ok_model = False
                        break
                    pos += len(b)
                else:
                    try:
                        v, j = jm.Reader(stdout).value(pos)
                    except jm.JsonError:
                        ok_model = False
                        break
                    if stdout[j:j + len(sep)] != sep or not jm.same(e, v):
                        ok_model = False
                        break
                    pos = j + len(sep)
            if ok_model and pos == len(stdout):
                st.known_finding("nonfinite-number", unit)
                known = True
                continue
            st.violation("nonfinite-unmodelled", "%s: non-finite result rows do not match the defect model" % cfg, unit,
                         {"stdout": stdout[:800], "args": case.args})
            return
        status, detail = findings.compare_rows(exp_here, stdout, sep, ascii_mode=not utf8)
        if status.startswith("known:"):
            st.known_finding(status[6:], unit)
            known = True
            continue
        if status == "bad":
            st.violation("%s:%s" % (detail["why"], "utf8" if utf8 else "ascii"),
                         "%s sep=%r: stdout does not read back as the values being output: %s" % (cfg, unit["sep"], detail),
                         unit, dict(detail, args=case.args, stdout=stdout[:1500]))
            return
        st.count("rows_read_back", len(exp_here))
        # (b) style predicates, row by row
        rd = jm.Reader(stdout)
        pos = 0
        uind = None
        for _ in exp_here:
            v, j = rd.value(pos)
            row = stdout[pos:j]
            pos = j + len(sep)
            bare = strip_strings(row)
            if style == "consise":
                if re.search(rb"[ \t\r\n]", bare):
                    st.violation("concise-whitespace", "%s: whitespace outside strings in a concise row" % cfg, unit,
                                 {"row": row[:400], "args": case.args})
                    return
            elif style == "one-line":
                if b"\n" in row or b"\r" in row:
                    st.violation("one-line-break", "%s: line break inside a one-line row" % cfg, unit,
                                 {"row": row[:400], "args": case.args})
                    return
            else:
                ok, why, u = check_pretty(row)
                if not ok:
                    st.violation("pretty-layout", "%s: %s" % (cfg, why), unit, {"row": row[:600], "args": case.args})
                    return
                if u is not None:
                    if uind is None:
                        uind = u
                    elif uind != u:
                        st.violation("pretty-indent-unit", "%s: indentation unit changes between rows (%d, %d)" % (cfg, uind, u),
                                     unit, {"row": row[:600]})
                        return
                    st.count("pretty_rows_with_nesting")
        # (d) fixpoint
        if unit["sep"].strip(" \t\r\n") == "":
            second.append((cfg, case, o.stdout))
    if second:
        c2 = [core.Case(c.args, out) for _, c, out in second]
        o2 = ctx.drv.run_many(c2)
        for (cfg, case, out), o in zip(second, o2):
            if o.result in ("timeout", "abort"):
                st.inconc("fixpoint_watchdog")
                continue
            st.count("fixpoint_passes")
            if unit["pipeline"] != "identity":
                # the second pass applies the pipeline again; only the identity pipeline is a fixpoint candidate
                continue
            if o.result != "ok" or o.stdout != out:
                st.violation("not-a-fixpoint", "%s: feeding the output back changed it" % cfg, unit,
                             {"args": case.args, "first": out[:800], "second": o.stdout[:800], "result": o.result})
                return
            st.count("fixpoint_identical")
    return "known" if known else None


def worker(ctx):
    st = ctx.stats
    n = ctx.params["units_per_worker"]
    for i in range(n):
        if ctx.expired():
            st.count("stopped_by_deadline")
            break
        unit = gen_unit(ctx.rng)
        r = run_unit(ctx, unit)
        st.count("units")
        st.see("separators", unit["sep"])
        st.see("pipelines", unit["pipeline"])
        if r == "known":
            st.count("known_finding_units")
            continue
        exp = expected_rows(unit)
        if exp:
            vc = set()
            sc = set()

            def walk(v):
                vc.add(jm.classify(v))
                if isinstance(v, str):
                    for ch in v:
                        c = ord(ch)
                        sc.add("c0" if c < 0x20 else "del" if c == 0x7F else "ascii" if c < 0x7F else "latin1" if c < 0x100
                               else "lsps" if c in (0x2028, 0x2029) else "bmp" if c < 0x10000 else "astral")
                elif isinstance(v, list):
                    for x in v:
                        walk(x)
                elif isinstance(v, dict):
                    for k, x in v.items():
                        walk(k)
                        walk(x)
            for e in exp:
                walk(e)
            for c in sc:
                st.see("string_classes", c)
            st.see("nontrivial", (unit["pipeline"], unit["sep"], tuple(sorted(vc)), tuple(sorted(sc))))
        if i < 2 and ctx.idx == 0:
            st.sample({"pipeline": unit["pipeline"], "sep": unit["sep"], "input": unit["input"][:200].decode("utf-8", "replace")})


def run(env):
    quick = env.tier == "quick"
    params = {"units_per_worker": 1200 if quick else 12000}
    stats = core.run_workers(__name__, "worker", PROP, env.tier, env.seed, env.driver, env.hooks_on,
                             50 if quick else 700, params)
    return core.finish(PROP, env.tier, env.seed, LEVEL, stats, env.t0, RULE,
                       min_conclusive=500 if quick else 5000,
                       assumptions=["the independent strict reader and the layout checker in vf/checks/c02.py are correct",
                                    "fixpoint demanded only for whitespace row separators and the identity pipeline",
                                    "IEEE double arithmetic of Python equals Rust's for + - * /"])


def replay(env, unit):
    return replay_unit(env, run_unit, unit)
