"""C14 --take stops reading: jawk terminates on unbounded input when it can.

Liveness restated as bounded progress and decided in bytes, not in time: on an endless input (finite generated prefix, then
a stamped template value for ever) jawk::go must return Ok having pulled at most (end offset of the value that produces
row S+T) + SLACK bytes from the instrumented reader; the reader gives up (cap_hit) after CAP bytes.
"""
from .. import core, jsonmodel as jm, records
from ..main import replay_unit

PROP = "C14"
LEVEL = "exploration"
SLACK = 64 * 1024
CAP_EXTRA = 1024 * 1024
RULE = ("T in 0..5, S in 0..3 x streaming pipelines (subsets of --set, --split-by, --filter, --select x0-3, --unique, "
        "--only-objects-and-arrays) x endless inputs (generated prefix of 0-8 records + endless stamped template that qualifies), "
        "via stdin and via a FIFO file; the value that produces row S+T is located by running the same pipeline without limits on "
        "growing finite prefixes. distinct_nontrivial = distinct (pipeline pattern, S, T, transport)")

TAIL_PRE = b'{"k":"a","g":"x","v":1,"arr":[1,2],"subs":[{"n":1}],"s":'
TAIL_POST = b'}\n'


def gen_unit(rng):
    recs = records.gen_records(rng, n=rng.choice((0, 1, 2, 3, 5, 8)))
    for i, r in enumerate(recs):
        r["s"] = -1 - i   # never collides with the tail counter
    args = []
    pat = []
    if rng.random() < 0.3:
        args += ["--set", "one=1"]
        pat.append("set")
    if rng.random() < 0.35:
        args += ["--split-by", rng.choice([".arr", ".subs", "(push [] .)"])]
        pat.append("split")
    if rng.random() < 0.4:
        args += ["--filter", rng.choice(["true", "(not (null? .))", "(or (number? .) (object? .))"])]
        pat.append("filter")
    nsel = rng.choice((0, 0, 1, 2, 3))
    sels = [".=v", "(default .s .)=s", ".k=k"]
    for i in range(nsel):
        args += ["--select", sels[i]]
    if nsel:
        pat.append("select%d" % nsel)
    if rng.random() < 0.4:
        args += ["--unique"]
        pat.append("unique")
        if "split" in pat and nsel and ".=v" not in args:
            pass
    if rng.random() < 0.2:
        args += ["--only-objects-and-arrays"]
        pat.append("only_oa")
    if rng.random() < 0.3:
        # how malformed input is reported has nothing to do with how much input is read
        args += ["--on-error", rng.choice(("stderr", "stdout", "ignore", "panic"))]
        pat.append("on_error")
    if "unique" in pat and "split" in pat:
        # split elements of the template repeat (1,2 / {"n":1}); make every tail row new by splitting the record itself
        i = args.index("--split-by")
        args[i + 1] = "(push [] .)"
    S = rng.randint(0, 3)
    T = rng.randint(0, 5)
    mode = "qualifying"
    r = rng.random()
    if r < 0.2:
        # nothing after the prefix ever produces a row: the filter passes only the prefix records (s < 0; the tail counts from 0)
        mode = "filtered-tail"
        args = [a for a in args]
        if "--split-by" in args:
            i = args.index("--split-by")
            del args[i:i + 2]
            pat = [p for p in pat if p != "split"]
        if "--filter" in args:
            i = args.index("--filter")
            del args[i:i + 2]
        args += ["--filter", "(< .s 0)"]
        pat = [p for p in pat if p != "filter"] + ["filter", "dead-tail"]
    elif r < 0.3:
        # after the prefix the input is blank for ever (an idle but open producer): nothing can follow the last wanted row
        mode = "blank-tail"
        pat = pat + ["dead-tail"]
    elif r < 0.42:
        # every tail row is a duplicate: only .k is selected, then --unique (the running counter is not part of the row)
        mode = "duplicate-tail"
        args = ["--select", ".k=k", "--unique"] + (["--set", "one=1"] if rng.random() < 0.3 else [])
        pat = ["select1", "unique", "dead-tail"]
    if mode != "qualifying":
        if len(recs) < 2:
            recs = records.gen_records(rng, n=rng.choice((2, 3, 5, 8)))
            for i, r in enumerate(recs):
                r["s"] = -1 - i
        # the last wanted row must come from the prefix (otherwise jawk may legitimately read for ever)
        need = rng.randint(1, len(recs) if mode in ("filtered-tail", "blank-tail") else 2)
        S = rng.randint(0, need - 1)
        T = need - S
        if rng.random() < 0.2:
            # no row is wanted at all: nothing needs to be read, whatever the input holds
            T, S = 0, rng.randint(0, 3)
    sep = rng.choice(["\n", "\n", " ", "", "\t", "\r\n"])
    if "only_oa" in pat and sep != "":
        # top-level scalars are passed over; strings whose text ends in an escape must not derail that
        recs = list(recs)
        for _ in range(rng.randint(1, 3)):
            recs.insert(rng.randint(0, len(recs)), rng.choice(["dir\\", "a\\\\", "q\\\"", "\\", "x", 5, None, "{", "tail\\"]))
    return {"prefix": recs, "args": args, "pattern": pat, "S": S, "T": T, "transport": rng.choice(["stdin", "stdin", "fifo", "file+fifo", "dir+fifo", "file+idle-fifo"]),
            "mode": mode, "sep": sep, "trigger": mode == "qualifying" and rng.random() < 0.004, "file_parts": rng.choice((len(recs), rng.randint(0, len(recs))))}


def run_unit(ctx, unit):
    st = ctx.stats
    recs = unit["prefix"]
    sep = unit.get("sep", "\n").encode()
    TAIL_POST = b"}" + sep
    parts = [jm.dumps(r).encode() + sep for r in recs]
    prefix = b"".join(parts)
    ends = []
    pos = 0
    for p in parts:
        pos += len(p)
        ends.append(pos)
    S, T = unit["S"], unit["T"]
    need = S + T
    blank = unit.get("mode") == "blank-tail"
    if blank:
        TAIL_PRE_U, TAIL_POST = b"", (sep if sep.strip() == b"" and sep else b" ") * 3
        tail = [TAIL_POST for i in range(need + 2)]
    else:
        TAIL_PRE_U = TAIL_PRE
        tail = [TAIL_PRE + str(i).encode() + TAIL_POST for i in range(need + 2)]
    # rows produced by growing finite prefixes (same pipeline, no limits): locate the deciding value
    finite = []
    acc = b""
    allvals = parts + tail
    cases = []
    for j in range(len(allvals) + 1):
        cases.append(core.Case(unit["args"], b"".join(allvals[:j])))
    obs = ctx.drv.run_many(cases)
    counts = []
    for o in obs:
        if o.result != "ok":
            st.inconc("finite_reference_failed")
            return
        counts.append(o.stdout.count(b"\n"))
    # monotone?
    deciding = None
    for j, c in enumerate(counts):
        if c >= max(need, 1) if T > 0 or True else False:
            deciding = j
            break
    if T == 0:
        # no row needs to be emitted; stopping at the first row that reaches the limiter (or earlier) is what "bounded" means
        deciding = next((j for j, c in enumerate(counts) if c >= S + 1), None)
        if unit.get("mode", "qualifying") != "qualifying":
            deciding = 0        # with a tail that never yields a row the only bounded behaviour is not to wait for one
    if deciding is None:
        st.inconc("tail_does_not_qualify")
        return
    end_off = sum(len(x) for x in allvals[:deciding])
    tail_len = len(TAIL_PRE) + 12 + len(TAIL_POST)
    cap = len(prefix) + CAP_EXTRA
    largs = unit["args"] + ["--skip", str(S), "--take", str(T)]
    if unit.get("trigger"):
        # a process started with `trigger` is not waited for ("trigger a process and return its PID"): the run ends while it lives
        trig = "(number? (trigger \"sleep\" \"70\"))"
        if "--filter" in largs:
            i = largs.index("--filter")
            largs = largs[:i + 1] + ["(and %s %s)" % (largs[i + 1], trig)] + largs[i + 2:]
        else:
            largs = largs + ["--filter", trig]
    in_file = 0
    if unit["transport"] == "stdin":
        case = core.Case(largs, endless=(prefix, TAIL_PRE_U, TAIL_POST, cap), watchdog_ms=30000)
    elif unit["transport"] == "fifo":
        case = core.Case(largs + ["@D@/endless.fifo"], efifos=[("endless.fifo", prefix, TAIL_PRE_U, TAIL_POST, cap)], watchdog_ms=30000)
    elif unit["transport"] == "file+idle-fifo":
        # every wanted row lies in an ordinary file - a large one, of which only the beginning is needed; the next input is a FIFO
        # nobody writes to (opening it would block for ever): it must be left alone.  Sometimes another process holds a lock
        # on the file: that is its business, reading needs no lock
        pad = (TAIL_PRE_U + b"1" + TAIL_POST) if not blank else TAIL_POST
        body = b"".join(allvals) + pad * (1 + (1500000 // max(1, len(pad))))
        in_file = len(body)
        case = core.Case(["@D@/first.json", "@D@/idle.fifo"] + largs, files=[("first.json", body)], fifos=["idle.fifo"], watchdog_ms=30000,
                         lockfiles=["first.json"] if unit["S"] == 1 else [])
    else:
        # the first records in an ordinary file, the rest and the endless tail in a FIFO given as the second input
        k = min(unit.get("file_parts", 0), len(parts))
        first, rest = b"".join(parts[:k]), b"".join(parts[k:])
        in_file = len(first)
        if unit["transport"] == "dir+fifo":
            # ... the ordinary file lies in a nested directory of a directory argument, with an empty sibling directory
            # ... and with siblings that hold no value (whatever order the directory is listed in, some entry follows the file)
            import zlib
            fname = ("first", "data", "b", "records-2024", "x1", "q", "input.part", "k7")[zlib.crc32(repr((unit["args"], S, T, len(parts))).encode()) % 8]
            case = core.Case(["@D@/in", "@D@/endless.fifo"] + largs, files=[("in/sub/deep/0-blank.json", b" \n"), ("in/sub/deep/%s.json" % fname, first), ("in/sub/deep/er/empty.json", b""),
                                                                             ("in/sub/deep/a-empty.json", b""), ("in/sub/deep/z-blank.json", b"\n\n"), ("in/sub/deep/m.json", b"")],
                             efifos=[("endless.fifo", rest, TAIL_PRE_U, TAIL_POST, cap)], watchdog_ms=30000)
        else:
            case = core.Case(["@D@/first.json", "@D@/endless.fifo"] + largs, files=[("first.json", first)],
                             efifos=[("endless.fifo", rest, TAIL_PRE_U, TAIL_POST, cap)], watchdog_ms=30000)
    if T == 0 and unit["transport"] in ("fifo", "file+fifo") and unit.get("file_parts", 0) % 2 == 0:
        # nothing is wanted at all, and the input is a stream that is open but silent (its producer is attached and has not
        # written anything yet): the run ends without waiting for a byte it does not need
        case = core.Case(largs + ["@D@/silent.fifo"], b"", fifos=["silent.fifo"], fifohold=True, watchdog_ms=15000)
        o = ctx.drv.run(case)
        if o.result in ("timeout", "abort"):
            o, ok = ctx.drv.confirm(case, o)
            if not ok:
                st.inconc("watchdog_not_reproduced")
                return
        st.count("conclusive")
        st.count("silent_stream_runs")
        if o.result != "ok" or o.stdout.strip(b"{}[]\n ") not in (b"",) :
            st.violation("waits-on-silent-stream:" + o.result, "--take 0 on an open but silent stream: %s %s, stdout %r" % (o.result, o.errtext, o.stdout[:100]), unit, {"args": case.args, "obs": o.brief()})
        return
    o = ctx.drv.run(case)
    if o.result in ("timeout", "abort"):
        o, ok = ctx.drv.confirm(case, o)
        if not ok:
            st.inconc("watchdog_not_reproduced")
            return
    st.count("conclusive")
    hooks = o.hooks or {}
    for stage, h in hooks.items():
        if stage != "regex" and h.get("breaks"):
            st.count("break_returned_by_" + stage, h["breaks"])

    def bad(sig, msg):
        st.violation(sig + ":" + "+".join(sorted(set(p.rstrip("0123456789") for p in unit["pattern"]) & {"select", "split"})), msg, unit, {"args": largs, "obs": o.brief(), "deciding_value_end": end_off,
                                                                        "cap": cap, "hooks": hooks, "efifo": o.efifo})
    if o.result != "ok":
        bad("result:" + o.result, "run on endless input did not succeed: %s %s %s" % (o.result, o.errtext, o.panicinfo))
        return
    if case.fifos:
        st.count("idle_fifo_runs")
        if o.fifo and o.fifo[0]:
            bad("opened-unneeded-input", "all %d wanted rows come from the first file, yet the following input (a FIFO without a writer) was opened" % need)
            return
        # bytes the process read from the file (read(2) accounting of the kernel): bounded by what the wanted rows need
        st.count("file_bytes_read_total", o.rchar)
        pulled, capped, slack = o.rchar, False, SLACK + 16 * 1024
    elif unit["transport"] == "stdin":
        pulled, capped = o.pulled, o.cap_hit
        slack = SLACK
    else:
        if not o.efifo:
            st.inconc("fifo_stats_missing")
            return
        pulled, opened, capped = o.efifo[0]
        if opened and T > 0 and unit["transport"] in ("file+fifo", "dir+fifo") and deciding <= min(unit.get("file_parts", 0), len(parts)):
            # every wanted row comes from the ordinary file (also when that file is one of several entries of a directory
            # argument): the next input is not needed, so it is not opened
            bad("opened-unneeded-input:" + unit["transport"], "all %d wanted rows come from the first input (%d of its %d values), yet the following input was opened and %d bytes of it read"
                % (need, deciding, min(unit.get("file_parts", 0), len(parts)), pulled))
            return
        pulled += in_file
        slack = SLACK + 64 * 1024 + 8 * 1024 + tail_len   # pipe buffer + BufReader
    if capped:
        bad("read-to-cap", "jawk was still reading after %d bytes of an endless input although row S+T=%d was produced by byte %d" % (pulled, need, end_off))
        return
    if pulled > end_off + slack:
        bad("overshoot", "pulled %d bytes; the value producing row %d ends at byte %d" % (pulled, need, end_off))
        return
    # output must be the limited slice of the finite reference
    ref = obs[deciding].stdout.split(b"\n")[:-1]
    want = ref[S:S + T]
    got = o.stdout.split(b"\n")[:-1]
    if got != want:
        bad("rows", "rows printed on the endless input are not rows S..S+T-1")
        return
    over = max(0, pulled - end_off)
    st.see("overshoot_bytes_bucket", 0 if over <= 1 else 1 if over <= 64 else 2 if over <= 8192 else 3)
    st.count("overshoot_le_1" if over <= 1 else "overshoot_gt_1")
    st.see("nontrivial", (tuple(unit["pattern"]), S, T, unit["transport"]))
    st.count("mode_" + unit.get("mode", "qualifying"))
    if unit.get("trigger"):
        st.count("runs_with_a_triggered_process_outliving_them")
    st.count("separator_" + {"\n": "lf", " ": "space", "": "none", "\t": "tab", "\r\n": "crlf"}[unit.get("sep", "\n")])
    st.count("bytes_pulled_total", pulled)


def worker(ctx):
    st = ctx.stats
    for i in range(ctx.params["units_per_worker"]):
        if ctx.expired():
            st.count("stopped_by_deadline")
            break
        unit = gen_unit(ctx.rng)
        run_unit(ctx, unit)
        st.count("units")
        if i < 1 and ctx.idx < 2:
            st.sample({"args": unit["args"], "S": unit["S"], "T": unit["T"], "transport": unit["transport"], "prefix_records": len(unit["prefix"])})


def run(env):
    quick = env.tier == "quick"
    stats = core.run_workers(__name__, "worker", PROP, env.tier, env.seed, env.driver, env.hooks_on,
                             45 if quick else 500, {"units_per_worker": 800 if quick else 6000})
    return core.finish(PROP, env.tier, env.seed, LEVEL, stats, env.t0, RULE, min_conclusive=300 if quick else 5000,
                       assumptions=["termination on unbounded input is restated as: go returns Ok before the endless reader's cap, having pulled at most 64 KiB past the deciding value (FIFO: plus pipe buffer and BufReader)",
                                    "the deciding value is located with the same build's unlimited runs on finite prefixes (differential)"])


def replay(env, unit):
    return replay_unit(env, run_unit, unit)
