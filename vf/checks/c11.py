"""C11 Stateless pipelines are record-local: out(A.B) = out(A).out(B).

Pure metamorphic oracle on stdout bytes of five real runs (A, B, A.B, B.A, A.A); no model.
"""
from .. import core, exprgen as eg, jsonmodel as jm
from ..main import replay_unit

PROP = "C11"
LEVEL = "exploration"
RULE = ("pairs of generated input sequences A, B (0-20 values, records and arbitrary JSON) x pipelines of --set/--split-by/--filter/--select x0-3 with "
        "full-grammar generated expressions (no & selectors; later selects may use /name/) x json styles, csv, text(+headers) x regex cache sizes "
        "0/1/2; compared: out(A.B)=out(A).out(B), out(B.A)=out(B).out(A), out(A.A)=out(A).out(A). distinct_nontrivial = distinct (pipeline text, "
        "output style) with non-empty output for A and for B")

OUTS = [[], ["--style", "consise"], ["--style", "pretty"], ["--utf8-strings"], ["-o", "csv"], ["-o", "text"], ["-o", "text", "--headers"]]


def gen_two_printers_unit(rng):
    """One member name (or string) reaches the text made by `stringify` in some records and the row printer in others: a run
    has several printers with different settings, and what one of them made of a name is nothing to the other."""
    names = ["\u00e9", "citt\u00e0", "\u65e5\u672c", "tab\there", "q\"uote", "\u2028", "plain"]

    def recs(n):
        out = []
        for _ in range(n):
            k = rng.choice(names)
            where = rng.choice(("obj", "nest", "both", "s"))
            r = {"i": rng.randint(0, 5)}
            if where in ("obj", "both"):
                r["obj"] = {k: 1, "a": rng.choice(names)}
            if where in ("nest", "both"):
                r["nest"] = {"x": {k: [k]}}
            if where == "s":
                r["s"] = k
                r["obj"] = {"v": k}
            if rng.random() < 0.4:
                # values that differ only in where a nested object ends (a careless fingerprint takes them for one value)
                r["obj"] = rng.choice(eg.TWINS)
                r["nest"] = rng.choice(eg.TWINS)
            out.append(jm.dumps(r))
        return out
    sel = rng.sample(["--select=(stringify .obj)=jo", "--select=.nest=nn", "--select=.obj=oo", "--select=(stringify .nest)=jn", "--select=(concat \"\" .s)=cs",
                      "--select=(stringify .s)=js"], rng.choice((2, 3, 4)))
    out = rng.choice([["--utf8-strings"], ["--utf8-strings", "--style", "consise"], ["-o", "text"], ["-o", "csv"], [], ["-o", "text", "--headers"]])
    return {"args": sel + out, "A": recs(rng.choice((1, 2, 4))), "B": recs(rng.choice((1, 2, 4))), "headers": ("csv" in out or "--headers" in out), "funcs": ["stringify"]}


def gen_churn_unit(rng):
    """More distinct formats / patterns in one run than any plausible cache holds, then the early ones again: what a function
    makes of (text, format) does not depend on how many other formats went through it before."""
    import datetime
    dates = ["%Y-%m-%d", "%d/%m/%Y", "%m.%d.%Y", "%Y%m%d", "%d-%m-%Y", "%Y/%m/%d", "%y-%m-%d"]
    seps = [" ", "T", "_", "@", " at "]
    times = ["%H:%M:%S", "%H.%M.%S", "%H%M%S", "%T", "%H:%M"]
    fmts = [d + s + t for d in dates for s in seps for t in times]
    rng.shuffle(fmts)

    def rec(f):
        dt = datetime.datetime(rng.randint(1971, 2035), rng.randint(1, 12), rng.randint(1, 28), rng.randint(0, 23), rng.randint(0, 59), rng.randint(0, 59))
        return jm.dumps({"d": dt.strftime(f.replace("%T", "%H:%M:%S")), "fmt": f, "p": "^" + f[:6].replace("%", "x") + "$"})
    n = rng.choice((66, 70, 130, 175))
    A = [rec(f) for f in fmts[:n]]
    B = [rec(f) for f in (fmts[:8] + rng.sample(fmts[:n], 8))]
    sel = rng.choice([["--select=(parse_time .d .fmt)=t"], ["--select=(parse_time .d .fmt)=t", "--select=(format_time (parse_time .d .fmt) .fmt)=back"],
                      ["--select=(match .fmt .p)=m", "--select=(parse_time .d .fmt)=t"]])
    return {"args": sel + ["--regular-expression-cache-size", str(rng.choice((0, 1, 2, 64)))], "A": A, "B": B, "headers": False, "funcs": ["parse_time"]}


SCOPE_SELECTS = [
    '(set "a" .x (? .c (set "b" 1 (push [] :a :b)) :a))', '(set "a" .x (and .c (set "b" 1 (= :a .x))))',
    '(define "m" (+ .x 1) (default (? .c (set "b" "k" (push [] @m :b)) .nosuch) "none"))',
    '(set "a" .x (set "b" .i (? .c (set "c" 0 (push [] :a :b :c)) :b)))', '(set "a" .x (or (not .c) (set "b" 1 (= :a .x))))',
    '(set "a" .x (default (? .c (set "a2" :a (set "b" 1 (push [] :a :a2 :b))) .nosuch) (set "z" 9 (push [] :z :a))))',
    '(set "a" (push [] .x) (? .c (set "b" 1 (first :a)) (set "b" 1 (push [] (first :a)))))',
    '(map (range 3) (set "a" (+ . ^.x) (? (= . ^.i) (set "b" 1 :a) -1)))',
    '(set "a" .x (? .c (define "m" :a (set "b" 1 (push [] @m :a))) :a))',
    # one macro, the same small input in every record, something else that differs (the enclosing input, a variable)
    '(define "m" (push [] . ^.x) (| .i @m))', '(set "v" .x (define "m" (push [] . :v) (| "k" @m)))', '(| .i @pm)', '(set "v" .x (| 1 @pv))',
    '(map (range 2) (define "m" (push [] . ^^^.x) (| 0 @m)))',
]


def gen_scopes_unit(rng):
    """Nested bindings whose inner scope is entered for some records only (behind ?, and, or, default): what a name stands for
    inside is what THIS record bound to it, however many records took the other branch before."""
    def recs(n):
        out = []
        for _ in range(n):
            c = rng.random() < rng.choice((0.3, 0.5, 0.7))
            for _ in range(rng.choice((1, 1, 2, 3, 5))):      # runs of records on one branch, of odd and even lengths
                out.append(jm.dumps({"x": rng.choice((1, 2, 3, "p", "q", 10, 11, 12, 13, 14, 15)) if rng.random() < 0.7 else rng.randint(0, 10 ** 6),
                                     "c": c, "i": rng.randint(0, 3)}))
        return out
    sels = rng.sample(SCOPE_SELECTS, rng.choice((1, 1, 2, 3)))
    args = ["--select=%s=s%d" % (e, i) for i, e in enumerate(sels)]
    args = ["--set", "@pm=(push [] . ^.x)", "--set", "@pv=(push [] . :v)"] + args
    if rng.random() < 0.3:
        args = ["--filter=" + rng.choice(SCOPE_SELECTS[:2]).replace("(push [] :a :b)", "(= :a .x)")] + args
    return {"args": args, "A": recs(rng.choice((2, 4, 8))), "B": recs(rng.choice((2, 4, 8))), "headers": False, "funcs": ["set", "define"], "singles": True}


def gen_sparse_macro_unit(rng):
    """A macro (and a variable reference, a selected name) that yields nothing for hundreds of records and a value for the few
    behind them: what the early records did not have is nothing to the later ones."""
    n = rng.choice((258, 300, 520, 1100))
    def rec(i, full):
        r = {"id": i, "tags": [rng.choice(("a", "b"))] * rng.choice((0, 1, 2))}
        if full:
            r["nick"] = "n%d" % i
            r["arr"] = [1, 2, i]
        return jm.dumps(r)
    A = [rec(i, rng.random() < 0.003) for i in range(n)]
    B = [rec(n + i, rng.random() < 0.8) for i in range(rng.choice((2, 3, 6)))]
    sels = rng.sample(["--select=@nick=n", "--select=(@ \"nick\")=m", "--select=(define \"d\" .nick @d)=d", "--select=(map .arr @twice)=t", "--select=(size @nick)=z",
                       "--select=(default @nick \"none\")=dn", "--select=(set \"v\" .nick :v)=v", "--select=(first (map .arr @nick))=fm", "--select=@undefined=u"], rng.choice((1, 2, 3)))
    args = ["--set", "@nick=.nick", "--set", "@twice=(* . 2)"] + sels + ["--select=.id=id"]
    if rng.random() < 0.3:
        args = ["--filter=(or (number? @nick) (< .id 100000))"] + args
    if rng.random() < 0.3:
        args = ["--split-by=(push [] .)"] + args
    return {"args": args, "A": A, "B": B, "headers": False, "funcs": ["@", "define", "set"]}


def gen_exec_unit(rng):
    """A program that could not be started for one record (a NUL in its argument, an argument too long for the kernel) is
    started for the next one like any other."""
    def rec():
        return jm.dumps({"s": rng.choice(["one", "two", "a\u0000b", "\u0000", "x" * 140000, "three", "", "-n"]), "i": rng.randint(0, 3)})
    A = [rec() for _ in range(rng.choice((1, 2, 3)))]
    B = [rec() for _ in range(rng.choice((1, 2, 3)))]
    sel = rng.choice([["--select=(get (exec \"echo\" .s) \"stdout\")=out"], ["--select=(get (exec \"printf\" \"%s\" .s) \"stdout\")=out", "--select=.i=i"],
                      ["--filter=(get (exec \"test\" \"-n\" .s) \"success\")", "--select=.i=i"]])
    return {"args": sel, "A": A, "B": B, "headers": False, "funcs": ["exec"]}


def gen_unit(rng):
    if rng.random() < 0.004:
        return gen_exec_unit(rng)
    if rng.random() < 0.04:
        return gen_two_printers_unit(rng)
    if rng.random() < 0.01:
        return gen_churn_unit(rng)
    if rng.random() < 0.03:
        return gen_scopes_unit(rng)
    if rng.random() < 0.006:
        return gen_sparse_macro_unit(rng)
    g = eg.Gen(rng, ill_typed=0.08, maxdepth=3)
    sc = eg.Scope()
    args = []
    sets = {}
    if rng.random() < 0.4:
        v = g.lit(rng.choice(("num", "str", "arr:num")))
        sc = sc.with_var("gv", "any")
        args += ["--set", "gv=" + eg.show(v)]
    if rng.random() < 0.3:
        m = g.gen(rng.choice(("num", "str", "bool")), eg.Scope().macro_body())
        sc = sc.with_macro("gm", "any")
        args += ["--set", "@gm=" + eg.show(m)]
    base = sc
    if rng.random() < 0.35:
        e = g.gen(rng.choice(("arr:num", "arr:obj", "arr:str")), Noscope(base))
        args += ["--split-by=" + eg.show(e)]
        base = base.push("any")
    if rng.random() < 0.4:
        e = g.gen("bool", Noscope(base))
        args += ["--filter=" + eg.show(e)]
    out = rng.choice(OUTS)
    nsel = rng.choice((0, 1, 2, 3))
    if "csv" in out and nsel == 0:
        nsel = 1
    if out == ["-o", "text", "--headers"] and nsel == 0:
        nsel = 1
    cur = base
    for i in range(nsel):
        e = g.gen(rng.choice(eg.KINDS), cur)
        args += ["--select=%s=c%d" % (eg.show(e, rng, rng.random() < 0.3), i)]
        cur = eg.Scope(cur.dot, cur.parents, cur.vars, cur.macros, dict(cur.sels, **{"c%d" % i: "any"}), True)
    if rng.random() < 0.1 and "csv" not in out:
        # one value through two printers of the run (the text inside a string made by stringify, and the row itself):
        # what one of them did with a member name or a string is nothing to the other
        extra = rng.sample(["--select=(stringify .)=js", "--select=.=whole", "--select=(stringify .obj)=jo", "--select=.nest=nn", "--select=(keys .)=ks",
                            "--select=(concat \"\" (stringify (keys .)))=jk"], 3)
        args += extra
    args += out
    args += ["--regular-expression-cache-size", str(rng.choice((0, 0, 1, 2)))]
    def seq(n, before=None):
        out = []
        for _ in range(n):
            prev = out[-1] if out else before
            # sometimes the previous value again with its members in the opposite order: equal for jawk, different text
            out.append(jm.twin(prev) if prev is not None and rng.random() < 0.2 else eg.gen_input(rng))
        return out
    r = rng.random()
    if r < 0.01:
        # long parts (hundreds of records, many empty collections): whatever a reader or stage accumulates per run shows here
        A = seq(rng.choice((300, 500)))
        B = seq(rng.choice((300, 500)), A[-1])
    else:
        A = seq(rng.choice((0, 1, 1, 2, 5, 20)))
        B = seq(rng.choice((0, 1, 2, 5, 20)), A[-1] if A else None)
        if r < 0.03 and B:
            # one value whose printed row is far above any plausible buffer size, after smaller ones
            B[rng.randrange(len(B))] = {"id": 4, "s": "y" * 70000, "arr": [1, 2], "n": 1}
    if rng.random() < 0.12:
        # top-level scalars are passed over under this option, whatever their text looks like (a string ending in a backslash,
        # strings full of quotes and brackets), and the records behind them are untouched
        args = ["--only-objects-and-arrays"] + args
        for part in (A, B):
            for _ in range(rng.choice((1, 2, 3))):
                part.insert(rng.randint(0, len(part)), rng.choice(["dir\\", "a\\\\", "q\\\"", "\\", "x", 5, None, "{", "tail\\", "[\"", True, 2.5]))
    return {"args": args, "A": [jm.dumps(v) for v in A], "B": [jm.dumps(v) for v in B], "headers": ("csv" in out or "--headers" in out),
            "funcs": sorted(g.used)}


def Noscope(sc):
    """filter / split-by do not see selected names."""
    return eg.Scope(sc.dot, sc.parents, sc.vars, sc.macros, {}, False)


def run_unit(ctx, unit):
    st = ctx.stats
    A = "\n".join(unit["A"]).encode()
    B = "\n".join(unit["B"]).encode()
    join = lambda x, y: x + (b"\n" if x and y else b"") + y
    cases = [core.Case(unit["args"], d) for d in (A, B, join(A, B), join(B, A), join(A, A))]
    singles = (unit["A"] + unit["B"])[:40] if unit.get("singles") else []
    cases += [core.Case(unit["args"], x.encode()) for x in singles]
    # the concatenations arrive part by part (first read result = the first part, then the rest): "B arrives after A"
    if A:
        cases[2].rsched = [len(A), 1 << 20]
        cases[4].rsched = [len(A), 3, 1 << 20]
    if B:
        cases[3].rsched = [len(B), 1 << 20]
    obs = ctx.drv.run_many(cases)
    if any(o.result != "ok" for o in obs):
        kinds = set(o.result for o in obs)
        if kinds & {"timeout", "abort"}:
            st.inconc("watchdog")
        elif "panic" in kinds:
            st.count("skipped_panic_is_C05")
        else:
            st.count("skipped_configuration_or_run_error")
        return
    st.count("conclusive")
    oA, oB, oAB, oBA, oAA = [o.stdout for o in obs[:5]]
    if singles and len(singles) == len(unit["A"]) + len(unit["B"]):
        # every record on its own, in a run that has seen nothing else
        alone = b"".join(o.stdout for o in obs[5:])
        if alone != oA + oB:
            st.violation("not-record-local:alone", "the rows of a run are not the rows that each record gives in a run of its own", unit,
                         {"args": unit["args"], "A": A[:500], "B": B[:500], "out_A": oA[:500], "out_B": oB[:500], "out_each_alone": alone[:1000]})
            return
        st.count("records_run_alone", len(singles))
    hdr = b""
    if unit["headers"]:
        # the header row is printed once per run
        def split_header(s):
            i = s.find(b"\n")
            return s[:i + 1], s[i + 1:]
        hA, oA = split_header(oA)
        hB, oB = split_header(oB)
        hdr = hA
        if hA != hB:
            st.violation("header-differs", "the header row depends on the input", unit, {"hA": hA, "hB": hB})
            return
    for name, got, want in (("A.B", oAB, hdr + oA + oB), ("B.A", oBA, hdr + oB + oA), ("A.A", oAA, hdr + oA + oA)):
        if got != want:
            st.violation("not-record-local", "out(%s) is not the concatenation of the outputs of its parts" % name, unit,
                         {"args": unit["args"], "A": A[:500], "B": B[:500], "out_A": oA[:500], "out_B": oB[:500], "out_" + name: got[:1000]})
            return
        st.count("concatenations_compared")
    if oA and oB:
        st.see("nontrivial", (tuple(unit["args"])))
    for f in unit["funcs"]:
        st.see("functions", f)
    for o in obs:
        h = o.hooks.get("regex") if o.hooks else None
        if h:
            st.count("regex_cache_hits", h["hits"])
            st.count("regex_cache_misses", h["misses"])


def worker(ctx):
    st = ctx.stats
    for i in range(ctx.params["units_per_worker"]):
        if ctx.expired():
            st.count("stopped_by_deadline")
            break
        unit = gen_unit(ctx.rng)
        run_unit(ctx, unit)
        st.count("units")
        if i < 2 and ctx.idx == 0:
            st.sample({"args": unit["args"], "A": unit["A"][:2], "B": unit["B"][:2]})


def run(env):
    quick = env.tier == "quick"
    stats = core.run_workers(__name__, "worker", PROP, env.tier, env.seed, env.driver, env.hooks_on,
                             45 if quick else 600, {"units_per_worker": 1200 if quick else 30000})
    return core.finish(PROP, env.tier, env.seed, LEVEL, stats, env.t0, RULE, min_conclusive=1500 if quick else 20000,
                       assumptions=["runs that fail (configuration error, panic) are skipped and counted: they are C05/C18's business"])


def replay(env, unit):
    return replay_unit(env, run_unit, unit)
