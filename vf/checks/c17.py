"""C17 Delivery-independent input; files stay separate; input-context is exact.

(a) differential: stdin with different read schedules / Interrupted results, and the same bytes as a file -> same rows;
(b) model: spans of every value from the generator (cross-checked by the independent scanner) versus &index,
    &index-in-file, &file-name, start/end line and column;
(c) files f1..fn = concatenation of the single-file outputs, values never span two files (also when a value is cut).
"""
import bisect

from .. import core, jsonmodel as jm, streams
from ..main import replay_unit
from . import c06

PROP = "C17"
LEVEL = "exploration"
RULE = ("generated clean and noisy streams delivered as stdin under several read schedules (whole, 1-byte, random sizes, with "
        "Interrupted results) and as 1-4 files (cut between values or inside a value), with and without --only-objects-and-arrays; "
        "rows carry all seven input-context selectors; distinct_nontrivial = distinct (stream hash, delivery form) pairs with at "
        "least two values")

NO_ASTRAL = c06.NO_ASTRAL
PROC_FILE = "/proc/sys/kernel/pid_max"      # a regular file (S_ISREG) of reported size 0 that delivers a JSON number and a line feed
SEL = ["--select", ".=v", "--select", "&index=i", "--select", "&index-in-file=f", "--select", "&file-name=n",
       "--select", "&started-at-line-number=sl", "--select", "&started-at-char-number=sc",
       "--select", "&ended-at-line-number=el", "--select", "&ended-at-char-number=ec"]


def gen_unit(rng):
    tags = set()
    data, exp, spans, info = streams.gen_stream(rng, nvalues=rng.choice((1, 2, 3, 5, 8, 13, 21)), maxdepth=3, tags=tags,
                                                classes=NO_ASTRAL, touch_p=rng.choice((0.0, 0.3, 0.8)), wsp=0.4)
    if rng.random() < 0.2:
        # string literals holding raw control characters (jawk reads them): a raw line feed inside a string is a line break of
        # the input like any other, the values behind it lie on later lines
        RAW = [(b'"r\nw"', "r\nw"), (b'{"k\n":[1,"\n\n"]}', {"k\n": [1, "\n\n"]}), (b'"t\tab\rcr"', "t\tab\rcr"), (b'["a\n","b"]', ["a\n", "b"]),
               (b'"\n"', "\n"), (b'{"a":"x\ny","b":2}', {"a": "x\ny", "b": 2})]
        exp, spans = list(exp), list(spans)
        for _ in range(rng.choice((1, 2, 3))):
            lit, val = rng.choice(RAW)
            sep = rng.choice((b" ", b"\n", b"\n  ", b"\t"))
            data += sep
            spans.append((len(data), len(data) + len(lit)))
            data += lit
            exp.append(val)
            if rng.random() < 0.6:
                data += rng.choice((b" ", b"\n"))
                spans.append((len(data), len(data) + 1))
                data += b"7"
                exp.append(7)
        tags.add("raw-control-in-string")
    u = {"data": data, "expected": exp, "spans": spans, "only_oa": rng.random() < 0.3, "noise": None,
         "sched_seed": rng.getrandbits(32)}
    if rng.random() < 0.25:
        nu = c06.gen_unit(rng)
        u["noise"] = c06.build(nu, True)[0]
    # file partition: cut points
    n = len(data)
    k = rng.choice((1, 2, 3, 4))
    cuts = []
    for _ in range(k - 1):
        if rng.random() < 0.5 and spans:
            # between values
            s = rng.choice(spans)
            cuts.append(s[1] if rng.random() < 0.5 else s[0])
        else:
            cuts.append(rng.randint(0, n))
    u["cuts"] = sorted(set(cuts))
    return u


def offsets(data):
    starts = [0]
    for i, b in enumerate(data):
        if b == 0x0A:
            starts.append(i + 1)
    return starts


def off(starts, data_len, line, col):
    if line < 1 or line > len(starts) or col < 1:
        return None
    o = starts[line - 1] + col - 1
    end_of_line = starts[line] if line < len(starts) else data_len + 1
    if o > end_of_line:
        return None
    return o


def parse_rows(stdout):
    rows = jm.read_rows(stdout, b"\n")
    return [jm.plain(r) for r in rows]


def run_unit(ctx, unit):
    import random
    st = ctx.stats
    data = unit["data"]
    args = list(SEL)
    if unit["only_oa"]:
        args = ["--only-objects-and-arrays"] + args
    r = random.Random(unit["sched_seed"])
    n = len(data)
    base_case = core.Case(args, data)
    variants = [
        ("one-byte", core.Case(args, data, rsched=[1])),
        ("random-chunks", core.Case(args, data, rsched=[r.randint(1, 50) for _ in range(7)])),
        ("interrupted", core.Case(args, data, rintr=sorted(set(r.randrange(2 * n + 2) for _ in range(8))), rsched=[r.randint(1, 9)])),
        ("file", core.Case(args + ["@D@/whole.json"], b"", files=[("whole.json", data)])),
        # the input context belongs to the value, also for the pieces of a split (here: the value itself as a one-element list)
        # and inside the item scope of a functional or a pipe
        ("split-self", core.Case(["--split-by", "(push [] .)"] + args, data)),
        ("nested-scope", core.Case(args + ["--select", "(first (map [1] &index))=mi", "--select", "(| 1 &index-in-file)=pf",
                                           "--select", "(first (map [1] (| . &started-at-char-number)))=msc"], data)),
        # the same bytes as the only file of a directory argument, and as a file of a directory next to another directory
        ("dir", core.Case(args + ["@D@/d1"], b"", files=[("d1/inner/whole.json", data)])),
    ]
    # the selector names are matched leniently (letter case, '_' for '-'): every spelling is the same selector; and each
    # selector means the same whether or not the others are mentioned in the run
    def alt(a, k):
        if not a.startswith("&"):
            return a
        name, _, col = a.partition("=")
        name = (name.upper(), name.replace("-", "_"), name.title().replace("-", "_"), "".join(ch.upper() if (i + k) % 3 == 0 else ch for i, ch in enumerate(name)))[k % 4]
        return name + "=" + col
    k = unit["sched_seed"]
    alt_args = [alt(a, k) for a in args]
    one = 3 + 2 * (k % 7)          # position of one of the seven selectors in SEL
    single = ["--select", ".=v", "--select", alt(SEL[one], k >> 3) if k & 64 else SEL[one]]
    single_col = SEL[one].partition("=")[2]
    if unit["only_oa"]:
        single = ["--only-objects-and-arrays"] + single
    variants += [
        # the file reached through a symbolic link to its directory, inside a directory argument ("all its files will be used")
        ("dir-link", core.Case(args + ["@D@/lk"], b"", files=[("real/inner/whole.json", data)], links=[("lk/to-real", "../real")])),
        ("alt-spelling", core.Case(alt_args, data)),
        ("alt-spelling-file", core.Case(alt_args + ["@D@/whole.json"], b"", files=[("whole.json", data)])),
        ("single-selector", core.Case(single + ["@D@/whole.json"], b"", files=[("whole.json", data)])),
    ]
    deep = "d40/" + "n/" * 40 + "whole.json"
    variants += [
        # an unrelated --set in front of the pipeline changes nothing the selectors report
        ("with-set", core.Case(["--set", "one=1", "--set", "@two=(len .)"] + args, data)),
        # "if any of the files is a directory, all its files will be used": also forty levels down
        ("deep-dir", core.Case(args + ["@D@/d40"], b"", files=[(deep, data)])),
        # one file named twice: two readings, the second with its own &index values - rows that --unique cannot call duplicates
        ("twice", core.Case(args + ["@D@/whole.json", "@D@/whole.json"], b"", files=[("whole.json", data)])),
        ("twice-unique", core.Case(["--unique"] + args + ["@D@/whole.json", "@D@/./whole.json"], b"", files=[("whole.json", data)])),
    ]
    proc_text = None
    if k % 16 == 0:
        # a file whose reported size is not the number of bytes it delivers (procfs says 0): same rows as the same bytes on stdin
        try:
            proc_text = open(PROC_FILE, "rb").read()
        except OSError:
            proc_text = None
        if proc_text:
            variants += [("proc-stdin", core.Case(args, proc_text)),
                         ("proc-file", core.Case(args + [PROC_FILE], b"")),
                         ("proc-link-in-dir", core.Case(args + ["@D@/plk"], b"", links=[("plk/b.json", PROC_FILE)]))]
    obs = ctx.drv.run_many([base_case] + [c for _, c in variants])
    base = obs[0]
    by_name = dict((nm, o) for (nm, _), o in zip(variants, obs[1:]))
    for o in obs:
        if o.result != "ok":
            if o.result in ("timeout", "abort"):
                st.inconc("watchdog")
                return
            st.violation("result:" + o.result, "run failed: %s %s" % (o.errtext, o.panicinfo), unit, {"obs": o.brief()})
            return
    st.count("conclusive")
    try:
        rows = parse_rows(base.stdout)
    except jm.JsonError as e:
        st.violation("unreadable", str(e), unit, {"stdout": base.stdout[:600]})
        return
    # (a) delivery independence
    for (name, c), o in zip(variants, obs[1:]):
        if name == "file":
            try:
                rf = parse_rows(o.stdout)
            except jm.JsonError as e:
                st.violation("unreadable-file", str(e), unit, None)
                return
            want_name = ctx.scratch + "/whole.json"
            a = [dict(x, n=None) for x in rows]
            b = [dict(x, n=None) for x in rf]
            if a != b:
                st.violation("stdin-vs-file", "the same bytes as a file give different rows", unit,
                             {"stdin_rows": rows[:5], "file_rows": rf[:5]})
                return
            if any(x.get("n") != want_name for x in rf) or any("n" in x for x in rows):
                st.violation("file-name", "&file-name is not the file path (or is present for stdin)", unit, {"rows": rf[:3]})
                return
        elif name == "alt-spelling-file":
            if o.stdout != by_name["file"].stdout:
                st.violation("selector-spelling:file", "selectors written in another letter case / with '_' give different rows for a file input", unit,
                             {"args": alt_args, "rows": o.stdout[:400], "want": by_name["file"].stdout[:400]})
                return
        elif name == "single-selector":
            try:
                rs = parse_rows(o.stdout)
                rf = parse_rows(by_name["file"].stdout)
            except jm.JsonError as e:
                st.violation("unreadable-single", str(e), unit, None)
                return
            if [(x.get("v", "<absent>"), x.get(single_col, "<absent>")) for x in rs] != [(x.get("v", "<absent>"), x.get(single_col, "<absent>")) for x in rf]:
                st.violation("selector-alone", "a selector used alone gives another value than next to the other selectors", unit,
                             {"args": single, "rows": rs[:4], "want": rf[:4]})
                return
        elif name == "nested-scope":
            try:
                rn = parse_rows(o.stdout)
            except jm.JsonError as e:
                st.violation("unreadable-nested", str(e), unit, None)
                return
            for x in rn:
                if x.get("mi", "<absent>") != x.get("i", "<absent>") or x.get("pf", "<absent>") != x.get("f", "<absent>") or \
                        x.get("msc", "<absent>") != x.get("sc", "<absent>"):
                    st.violation("input-context-in-nested-scope", "&index / &index-in-file / position differ inside map or pipe from the top level",
                                 unit, {"row": x})
                    return
            if [dict((k, v) for k, v in x.items() if k not in ("mi", "pf", "msc")) for x in rn] != rows:
                st.violation("delivery:nested-scope", "extra selections changed the other columns", unit, None)
                return
        elif name == "dir-link":
            try:
                rl = parse_rows(o.stdout)
            except jm.JsonError as e:
                st.violation("unreadable-dir-link", str(e), unit, None)
                return
            if [dict(x, n=None) for x in rl] != [dict(x, n=None) for x in rows] or any(x.get("n") != ctx.scratch + "/lk/to-real/inner/whole.json" for x in rl):
                st.violation("stdin-vs-linked-directory", "the same bytes in a file behind a linked directory give different rows", unit,
                             {"stdin_rows": rows[:4], "rows": rl[:4]})
                return
        elif name in ("proc-stdin", "proc-file", "proc-link-in-dir", "twice"):
            continue                      # judged below, against each other
        elif name == "twice-unique":
            try:
                r2 = parse_rows(by_name["twice"].stdout)
                ru = parse_rows(o.stdout)
            except jm.JsonError as e:
                st.violation("unreadable-twice", str(e), unit, None)
                return
            if [dict(x, n=None) for x in r2] != [dict(x, n=None) for x in ru] or len(r2) != 2 * len(rows):
                st.violation("file-twice-unique", "one file named twice: %d rows for one reading, %d for two, %d with --unique (every row carries its own &index)"
                             % (len(rows), len(r2), len(ru)), unit, {"twice": r2[:6], "unique": ru[:6]})
                return
        elif name == "deep-dir":
            try:
                rd = parse_rows(o.stdout)
            except jm.JsonError as e:
                st.violation("unreadable-deep-dir", str(e), unit, None)
                return
            if [dict(x, n=None) for x in rd] != [dict(x, n=None) for x in rows] or any(x.get("n") != ctx.scratch + "/" + deep for x in rd):
                st.violation("stdin-vs-deep-directory", "the same bytes as a file forty directories below a directory argument give different rows", unit,
                             {"stdin_rows": rows[:4], "dir_rows": rd[:4]})
                return
        elif name == "dir":
            try:
                rd = parse_rows(o.stdout)
            except jm.JsonError as e:
                st.violation("unreadable-dir", str(e), unit, None)
                return
            if [dict(x, n=None) for x in rd] != [dict(x, n=None) for x in rows] or any(x.get("n") != ctx.scratch + "/d1/inner/whole.json" for x in rd):
                st.violation("stdin-vs-directory", "the same bytes as the only file under a directory argument give different rows", unit,
                             {"stdin_rows": rows[:4], "dir_rows": rd[:4]})
                return
        elif o.stdout != base.stdout:
            st.violation("delivery:" + name, "stdout depends on how the input bytes are delivered (%s)" % name, unit,
                         {"base": base.stdout[:600], "variant": o.stdout[:600]})
            return
        st.count("deliveries_compared")
        st.see("nontrivial", (hash(data) & 0xFFFFFFF, name))
    if proc_text:
        try:
            ps, pf, pl = (parse_rows(by_name[x].stdout) for x in ("proc-stdin", "proc-file", "proc-link-in-dir"))
        except jm.JsonError as e:
            st.violation("unreadable-proc", str(e), unit, None)
            return
        if [dict(x, n=None) for x in pf] != [dict(x, n=None) for x in ps] or [dict(x, n=None) for x in pl] != [dict(x, n=None) for x in ps] or \
                (not ps and not unit["only_oa"]):
            st.violation("stdin-vs-procfs-file", "%s (reported size 0) as a file argument / behind a link in a directory does not give the rows of its bytes on stdin"
                         % PROC_FILE, unit, {"stdin": ps[:3], "file": pf[:3], "dir": pl[:3], "bytes": proc_text[:80]})
            return
        st.count("procfs_files_compared")
    # (b) positions / indices on the clean stream
    exp = unit["expected"]
    spans = unit["spans"]
    keep = [i for i, e in enumerate(exp) if not unit["only_oa"] or isinstance(e, (list, dict))]
    if len(rows) != len(keep):
        st.violation("row-count", "%d values expected, %d rows" % (len(keep), len(rows)), unit, {"rows": rows[:5]})
        return
    starts = offsets(data)
    prev_end = None
    for ordinal, (i, row) in enumerate(zip(keep, rows)):
        a, b = spans[i]
        if not jm.same(exp[i], row.get("v")) and not (exp[i] is None and "v" in row and row["v"] is None):
            st.violation("value", "row %d is not value %d" % (ordinal, i), unit, {"row": row, "expected": exp[i]})
            return
        if row.get("i") != ordinal or row.get("f") != ordinal:
            st.violation("index", "row %d has &index=%r &index-in-file=%r" % (ordinal, row.get("i"), row.get("f")), unit, {"row": row})
            return
        so = off(starts, n, row.get("sl"), row.get("sc"))
        eo = off(starts, n, row.get("el"), row.get("ec"))
        if so is None or eo is None:
            st.violation("position-invalid", "line/column outside the input: %r" % row, unit, {"row": row})
            return
        touching = a > 0 and data[a - 1:a] not in (b" ", b"\t", b"\n", b"\r")
        if so > a:
            if touching and so == a + 1:
                st.known_finding("touching-start", unit)
                st.count("known_touching")
                return "known"
            st.violation("start-after-value", "value %d occupies bytes [%d,%d) but its reported start is byte %d" % (i, a, b, so), unit,
                         {"row": row, "touching": touching})
            return
        if eo < b:
            st.violation("end-before-value-end", "value %d occupies bytes [%d,%d) but its reported end is byte %d" % (i, a, b, eo), unit,
                         {"row": row})
            return
        if prev_end is not None:
            if (not unit["only_oa"] and so != prev_end) or so < prev_end:
                st.violation("not-contiguous", "range of value %d starts at %d, previous range ended at %d" % (i, so, prev_end), unit,
                             {"row": row})
                return
        prev_end = eo
        if touching:
            st.count("touching_values_checked")
        st.count("values_position_checked")
    # (c) file partitions
    cuts = [0] + unit["cuts"] + [n]
    pieces = [data[cuts[j]:cuts[j + 1]] for j in range(len(cuts) - 1)]
    # file names are a seeded permutation of f0..fn-1 (given order != lexicographic order), sometimes in sub-directories,
    # and sometimes one file is named twice on the command line (it must then be processed twice)
    import random as _random
    prng = _random.Random(n * 131 + len(cuts) * 7 + sum(cuts))
    labels = list(range(len(pieces)))
    prng.shuffle(labels)
    # (names with a comma, a blank, a leading dot: a path is one argument whatever it contains)
    fnames = [("%s%sf%d.json" % (prng.choice(("", "", "sub/", "z/y/", "a,b/", ".hid/")), prng.choice(("", "", "", "p,", ".", "x y ")), labels[j])) for j in range(len(pieces))]
    files = [(fnames[j], p) for j, p in enumerate(pieces)]
    order = list(range(len(files)))
    if prng.random() < 0.25:
        order.insert(prng.randrange(len(order) + 1), prng.randrange(len(files)))
        st.count("file_named_twice")
    if fnames != sorted(fnames):
        st.count("file_order_not_lexicographic")
    fargs = args + ["@D@/" + files[j][0] for j in order]
    multi = core.Case(fargs, b"", files=files)
    singles = [core.Case(args + ["@D@/" + files[j][0]], b"", files=[files[j]]) for j in order]
    obs2 = ctx.drv.run_many([multi] + singles)
    if any(o.result != "ok" for o in obs2):
        bad = [o for o in obs2 if o.result != "ok"][0]
        if bad.result in ("timeout", "abort"):
            st.inconc("watchdog")
            return
        st.violation("files-result:" + bad.result, "multi-file run failed: %s %s" % (bad.errtext, bad.panicinfo), unit, {"obs": bad.brief()})
        return
    try:
        mrows = parse_rows(obs2[0].stdout)
        srows = [parse_rows(o.stdout) for o in obs2[1:]]
    except jm.JsonError as e:
        st.violation("unreadable-files", str(e), unit, None)
        return
    want = []
    idx = 0
    for rs in srows:
        for x in rs:
            y = dict(x)
            y["i"] = idx
            idx += 1
            want.append(y)
    if mrows != want:
        st.violation("files-not-concatenation", "rows for files f1..fn are not the single-file rows in order with &index continued",
                     unit, {"multi": mrows[:6], "singles": want[:6], "cuts": unit["cuts"]})
        return
    for j, rs in zip(order, srows):
        for k, x in enumerate(rs):
            if x.get("f") != k or x.get("n") != ctx.scratch + "/" + files[j][0]:
                st.violation("per-file-context", "&index-in-file / &file-name wrong in file %d" % j, unit, {"row": x})
                return
    # a directory argument stands where it was written: "f0 dir f2" (dir holding exactly one file, possibly further down) is
    # f0, then the file of dir, then f2 - the rows, &index and &file-name of the run with the files spelt out
    if len(files) >= 2 and prng.random() < 0.6:
        first = {}
        for pos, j in enumerate(order):
            first.setdefault(j, srows[pos])
        wrapped = set(j for j in range(len(files)) if prng.random() < 0.5)
        if not wrapped or wrapped == {len(files) - 1}:
            wrapped.add(prng.randrange(len(files) - 1))
        dargs, dfl, dnames = [], [], []
        for j, (nme, p) in enumerate(files):
            base = nme.split("/")[-1]
            if j in wrapped:
                inner = "md%d/%s%s" % (j, prng.choice(("", "", "deep/", "a/b/")), base)
                dfl.append((inner, p))
                dargs.append("@D@/md%d" % j)
                dnames.append(inner)
            else:
                dfl.append((nme, p))
                dargs.append("@D@/" + nme)
                dnames.append(nme)
        om = ctx.drv.run(core.Case(args + dargs, b"", files=dfl))
        if om.result != "ok":
            if om.result in ("timeout", "abort"):
                st.inconc("watchdog")
                return
            st.violation("dir-among-files-result:" + om.result, "files and one-file directories as arguments: %s %s" % (om.errtext, om.panicinfo), unit, {"obs": om.brief()})
            return
        try:
            got = parse_rows(om.stdout)
        except jm.JsonError as e:
            st.violation("unreadable-dir-among-files", str(e), unit, None)
            return
        wantd = []
        for j in range(len(files)):
            for x in first[j]:
                y = dict(x)
                y["i"] = len(wantd)
                if "n" in y:
                    y["n"] = ctx.scratch + "/" + dnames[j]
                wantd.append(y)
        if got != wantd:
            st.violation("directory-argument-out-of-place", "arguments %r (directories holding one file each) do not give the rows of the files in argument order" % dargs,
                         unit, {"got": got[:6], "want": wantd[:6], "cuts": unit["cuts"]})
            return
        st.count("directory_among_files_runs")
    # limits and sorters see the same input context: --skip cuts rows, it does not renumber what is left; a sorter hands its
    # rows on with everything they knew (a more significant key or a group key may read &file-name behind it)
    k = len(want) // 2
    extra = [core.Case(fargs + ["--skip", str(k)], b"", files=files),
             core.Case(fargs + ["--sort-by", "&file-name", "--sort-by", "&index"], b"", files=files),
             core.Case(fargs + ["--sort-by", "&index-in-file DESC", "--group-by", "&file-name"], b"", files=files)]
    oe = ctx.drv.run_many(extra) if prng.random() < 0.4 else []
    if oe and all(o.result == "ok" for o in oe):
        try:
            r_skip, r_sort = parse_rows(oe[0].stdout), parse_rows(oe[1].stdout)
            r_grp = [jm.plain(x) for x in jm.read_rows(oe[2].stdout)]
        except jm.JsonError as e:
            st.violation("unreadable-extra", str(e), unit, None)
            return
        if r_skip != want[k:]:
            st.violation("skip-changes-context", "--skip %d: the rows left are not the rows of the run without it" % k, unit, {"got": r_skip[:4], "want": want[k:k + 4]})
            return
        w_sort = sorted(want, key=lambda x: (x.get("n", ""), x.get("i", 0)))
        if r_sort != w_sort:
            st.violation("context-behind-sorter", "--sort-by &file-name --sort-by &index is not the rows ordered by file name, then index", unit, {"got": r_sort[:4], "want": w_sort[:4]})
            return
        names = []
        for x in want:
            if x.get("n") not in names:
                names.append(x.get("n"))
        if want and (len(r_grp) != 1 or not isinstance(r_grp[0], dict) or sorted(r_grp[0].keys()) != sorted(n for n in names if isinstance(n, str)) or
                     sum(len(v) for v in r_grp[0].values()) != len(want)):
            st.violation("group-by-file-name-behind-sorter", "--sort-by .. --group-by &file-name does not hold every row under its file's name", unit, {"got": r_grp, "files": names})
            return
        st.count("context_behind_limits_and_sorters")
    # a directory named twice, and a directory together with one of its sub-directories: read twice
    if len(files) >= 1 and prng.random() < 0.3:
        dfiles2 = [("tw/" + ("sub/" if j % 2 else "") + "g%d.json" % j, p) for j, (nme, p) in enumerate(files)]
        o1, o2, o3 = ctx.drv.run_many([core.Case(args + ["@D@/tw"], b"", files=dfiles2), core.Case(args + ["@D@/tw", "@D@/tw"], b"", files=dfiles2),
                                       core.Case(args + ["@D@/tw", "@D@/tw/sub"], b"", files=dfiles2 + [("tw/sub/", b"")])])
        if o1.result == "ok" and o2.result == "ok" and o3.result == "ok":
            n1, n2, n3 = o1.stdout.count(b"\n"), o2.stdout.count(b"\n"), o3.stdout.count(b"\n")
            if n2 != 2 * n1 or n3 < n1:
                st.violation("directory-named-twice", "a directory gives %d rows, named twice %d, with its sub-directory named too %d" % (n1, n2, n3), unit, None)
                return
            st.count("directory_twice_runs")
    # the same pieces as the files of ONE directory argument: the order of the files is the file system's, but &index must
    # count 0,1,2.. through them, &index-in-file restarts per file and each file's values stay together
    if len(files) >= 2 and prng.random() < 0.5:
        dfiles = [("dd/" + nme.replace("/", "_"), p) for nme, p in files]
        od = ctx.drv.run(core.Case(args + ["@D@/dd"], b"", files=dfiles))
        if od.result != "ok":
            st.violation("directory-result:" + od.result, "directory run failed: %s %s" % (od.errtext, od.panicinfo), unit, {"obs": od.brief()})
            return
        try:
            drows = parse_rows(od.stdout)
        except jm.JsonError as e:
            st.violation("unreadable-directory", str(e), unit, None)
            return
        seen_files = []
        for k, x in enumerate(drows):
            if x.get("i") != k:
                st.violation("directory-index", "value number %d of a directory run has &index %r" % (k, x.get("i")), unit, {"rows": drows[:8]})
                return
            if not seen_files or seen_files[-1] != x.get("n"):
                if x.get("n") in seen_files or x.get("f") != 0:
                    st.violation("directory-per-file", "files of a directory are interleaved or &index-in-file does not restart", unit, {"rows": drows[:8]})
                    return
                seen_files.append(x.get("n"))
        if len(drows) != sum(len(rs) for rs in srows[:len(files)] if True) and order == list(range(len(files))):
            st.violation("directory-row-count", "a directory of the pieces gives %d rows, the pieces alone give %d" % (len(drows), sum(len(rs) for rs in srows)), unit, None)
            return
        st.count("directory_runs")
    if prng.random() < 0.3:
        # arguments were given: they are the input, even if they hold no file at all; standard input is not a fallback
        eargs = [["@D@/e1/"], ["@D@/e1/", "@D@/e2/deep/"], ["@D@/e2/"]][len(cuts) % 3]
        efiles = [("e1/", b""), ("e2/deep/er/", b"")]
        oe = ctx.drv.run(core.Case(args + eargs, data, files=efiles))
        if oe.result != "ok" or oe.stdout.strip() or oe.factory_calls or oe.pulled:
            st.violation("stdin-read-although-inputs-named", "directories without files were named as input: result %s, %d bytes of rows, stdin opened %d times (%d bytes pulled)" % (
                oe.result, len(oe.stdout), oe.factory_calls, oe.pulled), unit, {"args": eargs, "stdout": oe.stdout[:300]})
            return
        st.count("empty_directory_runs")
    if prng.random() < 0.02:
        # hundreds of input files (more than the driver process may hold open at once: its descriptor limit is 256), some
        # with names that are not UTF-8: every file is read, one after the other
        many = [("many/%s%03d.json" % (("f", "caf\udce9-", "\udcff")[i % 3 if i % 7 == 0 else 0], i), b"%d\n" % i) for i in range(300)]
        om = ctx.drv.run(core.Case(["--select", ".=v", "--select", "&index=i", "--select", "&index-in-file=f", "@D@/many"], b"", files=many))
        if om.result != "ok":
            st.violation("many-files:" + om.result, "a directory of 300 one-value files: %s %s" % (om.result, om.errtext or om.panicinfo), unit, {"obs": om.brief()})
            return
        mr = parse_rows(om.stdout)
        if sorted(x.get("v", -1) for x in mr) != list(range(300)) or [x.get("i") for x in mr] != list(range(300)) or any(x.get("f") != 0 for x in mr):
            st.violation("many-files-rows", "a directory of 300 one-value files gives %d rows (values / &index / &index-in-file wrong)" % len(mr), unit, {"rows": mr[:5]})
            return
        st.count("many_files_runs")
    st.count("file_partitions", 1)
    st.see("nontrivial", (hash(data) & 0xFFFFFFF, "files%d" % len(order)))
    # noisy stream: only delivery independence and sanity of positions
    if unit["noise"] is not None:
        nd = unit["noise"]
        # things a file may start with and a reader might be tempted to treat specially (byte-order marks, a #! line, NUL):
        # for jawk they are ordinary noise bytes, on stdin and in a file alike
        hd = (b"", b"", b"\xef\xbb\xbf", b"\xff\xfe", b"\xfe\xff", b"#!jawk\n", b"\x00", b"\xef\xbb\xbf\n")[(len(nd) + len(data)) % 8]
        if hd:
            nd = hd + nd
            st.count("noisy_streams_with_file_header_bytes")
        cs = [core.Case(["--on-error", "stdout"] + args, nd), core.Case(["--on-error", "stdout"] + args, nd, rsched=[1], rintr=[3, 4, 11]),
              core.Case(["--on-error", "stdout"] + args + ["@D@/n.json"], b"", files=[("n.json", nd)])]
        o3 = ctx.drv.run_many(cs)
        if any(o.result != "ok" for o in o3):
            st.inconc("noisy_run_failed")
            return
        if o3[0].stdout != o3[1].stdout:
            st.violation("delivery-noisy", "noisy stream: stdout depends on delivery", unit, None)
            return
        strip = lambda s: [l for l in s.split(b"\n") if not l.startswith(b"error:")]
        import re
        a = [re.sub(rb', "n": "[^"]*"', b"", l) for l in strip(o3[0].stdout)]
        b = [re.sub(rb', "n": "[^"]*"', b"", l) for l in strip(o3[2].stdout)]
        if a != b:
            st.violation("stdin-vs-file-noisy", "noisy stream: file and stdin rows differ", unit, {"stdin": a[:4], "file": b[:4]})
            return
        nerr = lambda s: sum(1 for l in s.split(b"\n") if l.startswith(b"error:"))
        if nerr(o3[0].stdout) != nerr(o3[2].stdout):
            st.violation("stdin-vs-file-noisy-errors", "noisy stream: %d error lines from stdin, %d from the file" % (nerr(o3[0].stdout), nerr(o3[2].stdout)),
                         unit, {"stdin": o3[0].stdout[:600], "file": o3[2].stdout[:600]})
            return
        st.count("noisy_streams")


def worker(ctx):
    st = ctx.stats
    for i in range(ctx.params["units_per_worker"]):
        if ctx.expired():
            st.count("stopped_by_deadline")
            break
        unit = gen_unit(ctx.rng)
        run_unit(ctx, unit)
        st.count("units")
        if i < 1 and ctx.idx < 2:
            st.sample({"data": unit["data"][:200].decode("utf-8", "replace"), "cuts": unit["cuts"], "only_objects_and_arrays": unit["only_oa"]})


def run(env):
    quick = env.tier == "quick"
    stats = core.run_workers(__name__, "worker", PROP, env.tier, env.seed, env.driver, env.hooks_on,
                             45 if quick else 600, {"units_per_worker": 500 if quick else 15000})
    return core.finish(PROP, env.tier, env.seed, LEVEL, stats, env.t0, RULE, min_conclusive=300 if quick else 3000,
                       assumptions=["(line, column) is mapped to a byte offset as line start (counting LF) + column - 1",
                                    "stdin is consumed one byte per read call by jawk, files through BufReader: chunking inside the file path is not controllable"])


def replay(env, unit):
    return replay_unit(env, run_unit, unit)
