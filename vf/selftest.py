"""Self-tests of the reference models (run by setup.sh)."""
import json
import random
import sys

from . import jsonmodel as jm


def test_reader():
    good = ['{"a":[1,2,{"b":null}],"c":"x\\u00e9\\ud83d\\ude03"}', '[]', '{}', '""', '0', '-0', '1.5e-3', '1E+2',
            ' [ 1 , 2 ] ', '"\\/\\b\\f\\n\\r\\t\\"\\\\"', 'true', 'false', 'null', '[[[[]]]]']
    for g in good:
        v = jm.plain(jm.loads(g))
        assert v == json.loads(g), (g, v)
    bad = ['', '[1,]', '{"a":1,}', '[1 2]', '{"a" 1}', "{'a':1}", '01', '1.', '.5', '-', '+1', '1e', '1e+', 'tru', 'nul',
           'NaN', 'Infinity', '-Infinity', 'inf', '"\x01"', '"\n"', '"\\x"', '"\\u12"', '"\\ud800"', '"\\udc00"', '[', '{',
           '"abc', '{"a":1 "b":2}', '1 2', '[1]]', '"\\u1f603', b'"\xff"', b'"\xc3"', '﻿1', '{"a":1,"a":2}', '0x10', '1_000']
    for b in bad:
        try:
            jm.loads(b)
        except jm.JsonError:
            continue
        raise AssertionError("accepted invalid JSON %r" % (b,))
    assert [s for _, s, e in jm.read_stream(b'1 "a"[2]{"k":3}true')] == [0, 2, 5, 8, 15]
    rows = jm.read_rows(b'{"a": 1}\n[1, 2]\n', b"\n")
    assert len(rows) == 2


def test_spelling():
    rng = random.Random(1)
    for i in range(3000):
        v = jm.gen_value(rng, 0, 4)
        t, e = jm.spell(v, rng)
        back = jm.loads(t)
        assert jm.same(e, back), (t, e, back)
        # cross-check with the standard library
        jv = json.loads(t)
        assert jm.same(e, jv, order=True) or _has_big(e), (t, e, jv)
        # writer round-trips
        assert jm.same(v, jm.loads(jm.dumps(v))), v


def _has_big(e):
    return True  # json module rounds big ints/floats its own way; structure already compared by the strict reader


def test_numbers():
    rng = random.Random(2)
    for x in jm.BOUNDARY_INTS + jm.BOUNDARY_FLOATS:
        for _ in range(30):
            t, e = jm.spell_number(x, rng)
            assert jm._NUM.fullmatch(t.encode()), t
            if isinstance(x, int):
                from fractions import Fraction
                assert Fraction(t) == x, (t, x)
            else:
                assert float(t) == x, (t, x)
    assert jm.num_match(2 ** 64 - 1, jm.JNum("18446744073709551615"))
    assert not jm.num_match(2 ** 64 - 1, jm.JNum("18446744073709551616"))
    assert not jm.num_match(2 ** 64 - 1, jm.JNum("1.8446744073709552e19"))
    assert jm.num_match(1e300, jm.JNum("1" + "0" * 300))
    assert jm.astral_defect("a\U0001f603") == "aὠ3"


def main():
    n = 0
    g = globals()
    mods = [g]
    try:
        from . import selftest_more
        mods.append(vars(selftest_more))
    except ImportError:
        pass
    for m in mods:
        for name, f in sorted(m.items()):
            if name.startswith("test_") and callable(f):
                f()
                n += 1
    print("selftest: %d groups passed" % n)


if __name__ == "__main__":
    main()
