"""Reference evaluator for jawk selections, written from the documentation (SEMANTICS.md).

eval(ast, ctx) -> a JSON value (None, bool, int, float, str, list, dict), NOTHING, or one of the
marker values Stringified / NasVal / UDict (see below).  Raises Unspecified where the documents do not
fix the answer; the caller then does not compare that case.
"""
import base64
import math
import re
from fractions import Fraction

from . import jsonmodel as jm


class _Nothing:
    def __repr__(self):
        return "NOTHING"


NOTHING = _Nothing()


class Unspecified(Exception):
    pass


class UDict(dict):
    """An object constructed from scratch by a function: member order not fixed by any document."""


class Stringified:
    """Result of stringify: some JSON text of .value"""

    def __init__(self, value):
        self.value = value


class NasVal:
    """Result of a number-as-string function: a string whose exact decimal value is .fr"""

    def __init__(self, fr):
        self.fr = fr


class Ctx:
    __slots__ = ("input", "parents", "vars", "macros", "sels", "env")

    def __init__(self, input_, parents=(), vars_=None, macros=None, sels=None, env=None):
        self.input = input_
        self.parents = tuple(parents)
        self.vars = vars_ or {}
        self.macros = macros or {}
        self.sels = sels      # None = not available here
        self.env = env or {}

    def push(self, v):
        return Ctx(v, (self.input,) + self.parents, self.vars, self.macros, None, self.env)

    def with_var(self, n, v):
        d = dict(self.vars)
        d[n] = v
        return Ctx(self.input, self.parents, d, self.macros, self.sels, self.env)

    def with_macro(self, n, m):
        d = dict(self.macros)
        d[n] = m
        return Ctx(self.input, self.parents, self.vars, d, self.sels, self.env)


BARRIER = object()
UNSPEC_VALUE = object()


def normalise(v):
    """What jawk holds after reading a JSON text: integral doubles in (-2^63, 2^64) are integers."""
    if isinstance(v, float):
        return norm(v)
    if isinstance(v, int) and not isinstance(v, bool) and not (-(2 ** 63) <= v <= 2 ** 64 - 1):
        return float(v)         # an integer literal outside the 64-bit range is read as the nearest double
    if isinstance(v, list):
        return [normalise(x) for x in v]
    if isinstance(v, dict):
        return {k: normalise(x) for k, x in v.items()}
    return v

# --------------------------------------------------------------------------
# helpers

I64_MIN = -(2 ** 63)
U64_MAX = 2 ** 64 - 1


def is_num(v):
    return isinstance(v, (int, float)) and not isinstance(v, bool)


def norm(x):
    """IEEE double result -> value (integral and in (-2^63, 2^64) -> integer)."""
    if isinstance(x, int):
        x = float(x)
    if x != x or x in (math.inf, -math.inf):
        return x
    if x == math.floor(x) and -(2.0 ** 63) < x < 2.0 ** 64:
        return int(x)
    return x


def to_f(v):
    try:
        return float(v)
    except OverflowError:
        raise Unspecified("integer beyond double range")


def as_N(v):
    """A non-negative integer argument (JSON number that is an integer in [0, 2^64)), else None."""
    if not is_num(v):
        return None
    if isinstance(v, float):
        if v != math.floor(v) or v < 0 or v >= 2.0 ** 64:
            return None
        return int(v)
    if 0 <= v <= U64_MAX:
        return v
    return None


def rank(v):
    if v is None:
        return 0
    if v is False:
        return 1
    if v is True:
        return 2
    if isinstance(v, str):
        return 3
    if is_num(v):
        return 4
    if isinstance(v, dict):
        return 5
    if isinstance(v, list):
        return 6
    raise Unspecified("ordering a marker value")


def check_plain(v):
    if isinstance(v, (Stringified, NasVal)):
        raise Unspecified("text of stringify / number-as-string result used as a value")
    return v


def cmp(a, b):
    """Documented total order; raises Unspecified for two different objects and for out-of-domain numbers."""
    ra, rb = rank(a), rank(b)
    if ra != rb:
        return -1 if ra < rb else 1
    if ra in (0, 1, 2):
        return 0
    if ra == 3:
        return -1 if a < b else (1 if a > b else 0)
    if ra == 4:
        for x in (a, b):
            if isinstance(x, int) and abs(x) >= 2 ** 53:
                raise Unspecified("integer beyond 2^53 in a comparison")
            if isinstance(x, float) and (x != x or abs(x) == math.inf):
                raise Unspecified("non-finite number")
        return -1 if a < b else (1 if a > b else 0)
    if ra == 6:
        for x, y in zip(a, b):
            c = cmp(x, y)
            if c:
                return c
        return -1 if len(a) < len(b) else (1 if len(a) > len(b) else 0)
    # objects
    if equal(a, b):
        if list(a.keys()) != list(b.keys()):
            raise Unspecified("objects differing only in member order")
        return 0
    raise Unspecified("order between two different objects")


def equal(a, b):
    ra, rb = rank(a), rank(b)
    if ra != rb:
        return False
    if ra in (0, 1, 2):
        return True
    if ra == 3:
        return a == b
    if ra == 4:
        for x in (a, b):
            if isinstance(x, int) and abs(x) >= 2 ** 53:
                raise Unspecified("integer beyond 2^53 in a comparison")
        return a == b
    if ra == 6:
        return len(a) == len(b) and all(equal(x, y) for x, y in zip(a, b))
    if len(a) != len(b):
        return False
    for k, v in a.items():
        if k not in b or not equal(v, b[k]):
            return False
    return True


def stable_sort(items, keyf):
    """Stable sort under cmp by keyf(item)."""
    import functools
    keyed = [(keyf(x), i, x) for i, x in enumerate(items)]

    def c(p, q):
        r = cmp(p[0], q[0])
        return r if r else (p[1] - q[1])
    keyed.sort(key=functools.cmp_to_key(c))
    return [x for _, _, x in keyed]


_NAS = re.compile(r"-?[0-9]+(\.[0-9]+)?([eE][+-]?[0-9]+)?$")


def nas(v):
    """Operand of a number-as-string function -> Fraction or None."""
    if isinstance(v, NasVal):
        return v.fr
    if isinstance(v, Stringified):
        raise Unspecified("text of a stringify result used as a number")
    if isinstance(v, str):
        if _NAS.match(v):
            return Fraction(v)
        if re.match(r"^[+-]?(\d[\d_]*\.?[\d_]*|\.\d[\d_]*)([eE][+-]?\d+)?$", v):
            raise Unspecified("number-as-string spelling outside the documented examples")
        return None
    return None


# regular expressions: the portable patterns the generator uses (valid / invalid in both engines)
REGEX_OK = {"a", "^a", "b$", "a.c", "[a-c]+", "(a)(b)?", "x|y", "[0-9]+", "(é)", "a*", "\\d+", "h(el+)o", "^$", "é", "(.)(é)?", "[a-z]+", "[a-z ]+([0-9]+)[a-z ]+",
            # groups that may not take part in the match: same leftmost-first semantics in both engines
            "^\\w{1,100}$", "^[\\w.-]{1,64}@[\\w.-]{1,64}$", "^(\\w{1,40})-(\\w{1,40})$",
            "(a)?(b)", "(x)|(y)|(a)", "(h)?(e)?(l+)", "([0-9]+)?-?([a-z]+)", "(a)|(b)", "((a)|(b))+(c)?", "(?:a)(b)(?P<n>c)?", "(é)?(.)"}
REGEX_BAD = {"(", "[", "[0-9"}

TIME_DIRECTIVES = set("YmdHMSjFT%")


def portable_format(fmt):
    i = 0
    while i < len(fmt):
        if fmt[i] == "%":
            if i + 1 >= len(fmt) or fmt[i + 1] not in TIME_DIRECTIVES:
                return False
            i += 2
        else:
            if ord(fmt[i]) > 0x7E or ord(fmt[i]) < 0x20:
                return False
            i += 1
    return True


def format_time(sec, fmt):
    import datetime
    dt = datetime.datetime(1970, 1, 1) + datetime.timedelta(seconds=sec)
    out = []
    i = 0
    while i < len(fmt):
        c = fmt[i]
        if c != "%":
            out.append(c)
            i += 1
            continue
        d = fmt[i + 1]
        i += 2
        if d == "Y":
            out.append("%d" % dt.year)
        elif d == "m":
            out.append("%02d" % dt.month)
        elif d == "d":
            out.append("%02d" % dt.day)
        elif d == "H":
            out.append("%02d" % dt.hour)
        elif d == "M":
            out.append("%02d" % dt.minute)
        elif d == "S":
            out.append("%02d" % dt.second)
        elif d == "j":
            out.append("%03d" % dt.timetuple().tm_yday)
        elif d == "F":
            out.append("%d-%02d-%02d" % (dt.year, dt.month, dt.day))
        elif d == "T":
            out.append("%02d:%02d:%02d" % (dt.hour, dt.minute, dt.second))
        elif d == "%":
            out.append("%")
    return "".join(out)


# --------------------------------------------------------------------------
# the evaluator

def ev(ast, c):
    k = ast[0]
    if k == "lit":
        return normalise(ast[1])
    if k == "path":
        n = ast[1]
        if n == 0:
            v = c.input
        else:
            if n > len(c.parents):
                raise Unspecified("more ^ than enclosing inputs")
            for p in c.parents[:n]:
                if p is BARRIER:
                    raise Unspecified("^ beyond the pipe's documented chain")
            v = c.parents[n - 1]
        for st in ast[2]:
            if isinstance(v, (Stringified, NasVal)):
                return NOTHING
            if st[0] == "k":
                if isinstance(v, dict) and st[1] in v:
                    v = v[st[1]]
                else:
                    return NOTHING
            else:
                if isinstance(v, list) and st[1] < len(v):
                    v = v[st[1]]
                else:
                    return NOTHING
        return v
    if k == "var":
        return c.vars.get(ast[1], NOTHING)
    if k == "macro":
        m = c.macros.get(ast[1])
        if m is None:
            return NOTHING
        return ev(m, c)
    if k == "sel":
        if c.sels is None:
            raise Unspecified("/name/ where selected names are not documented to be available")
        v = c.sels.get(ast[1], NOTHING)
        if v is UNSPEC_VALUE:
            raise Unspecified("earlier selection is unspecified")
        return v
    if k == "raw":
        if ast[1] == "-0":
            return 0          # the integer zero written with a sign
        raise Unspecified("raw text")
    name = ast[1]
    args = ast[2]
    f = FN.get(name)
    if f is None:
        raise Unspecified("function %s has no reference" % name)
    return f(args, c)


def A(args, c, i):
    if i >= len(args):
        return NOTHING
    return ev(args[i], c)


FN = {}


def fn(*names):
    def deco(f):
        for n in names:
            FN[n] = f
        return f
    return deco


def plain(v):
    """Reject marker values where the exact text would matter."""
    if isinstance(v, (Stringified, NasVal)):
        raise Unspecified("text of stringify / number-as-string result inspected")
    return v


@fn("get")
def _get(a, c):
    o, k = plain(A(a, c, 0)), plain(A(a, c, 1))
    if isinstance(o, dict) and isinstance(k, str):
        return o.get(k, NOTHING)
    if isinstance(o, list):
        n = as_N(k)
        if n is not None and n < len(o):
            return o[n]
    return NOTHING


@fn("size")
def _size(a, c):
    o = plain(A(a, c, 0))
    if isinstance(o, (list, dict, str)):
        return len(o)
    return NOTHING


def _coll_slice(o, start, length):
    if isinstance(o, UDict) and len(o) > 1:
        raise Unspecified("member order of a constructed object")
    if isinstance(o, list):
        return o[start:start + length] if length is not None else o[start:]
    if isinstance(o, dict):
        items = list(o.items())
        items = items[start:start + length] if length is not None else items[start:]
        return type(o)(items) if not isinstance(o, UDict) else UDict(items)
    if isinstance(o, str):
        return o[start:start + length] if length is not None else o[start:]
    return NOTHING


@fn("take")
def _take(a, c):
    o, n = plain(A(a, c, 0)), as_N(plain(A(a, c, 1)))
    if n is None or not isinstance(o, (list, dict, str)):
        return NOTHING
    return _coll_slice(o, 0, n)


@fn("take_last")
def _take_last(a, c):
    o, n = plain(A(a, c, 0)), as_N(plain(A(a, c, 1)))
    if n is None or not isinstance(o, (list, dict, str)):
        return NOTHING
    return _coll_slice(o, max(0, len(o) - n), None)


@fn("sub")
def _sub(a, c):
    o, s, l = plain(A(a, c, 0)), as_N(plain(A(a, c, 1))), as_N(plain(A(a, c, 2)))
    if s is None or l is None or not isinstance(o, (list, dict, str)):
        return NOTHING
    return _coll_slice(o, s, l)


@fn("?")
def _if(a, c):
    cond = A(a, c, 0)
    if cond is True:
        return A(a, c, 1)
    if cond is False:
        return A(a, c, 2)
    return NOTHING


@fn("default")
def _default(a, c):
    for i in range(len(a)):
        v = A(a, c, i)
        if v is not NOTHING:
            return v
    return NOTHING


@fn("|")
def _pipe(a, c):
    # element 0 is evaluated on the pipe's input; what ^ means inside it is not documented (jawk repeats the input)
    v = ev(a[0], Ctx(c.input, (BARRIER,) + c.parents, c.vars, c.macros, None, c.env))
    if v is NOTHING:
        return NOTHING
    prev = [c.input]            # chain seen from element 1: ^ = pipe input
    cur = v
    for i in range(1, len(a)):
        cc = Ctx(cur, tuple(prev) + (BARRIER,) + c.parents, c.vars, c.macros, None, c.env)
        nv = ev(a[i], cc)
        if nv is NOTHING:
            return NOTHING
        prev = [cur] + prev
        cur = nv
    return cur


def _cmp_fn(test):
    def f(a, c):
        x, y = A(a, c, 0), A(a, c, 1)
        if x is NOTHING or y is NOTHING:
            return NOTHING
        return test(plain(x), plain(y))
    return f


FN["="] = _cmp_fn(lambda x, y: equal(x, y))
FN["!="] = _cmp_fn(lambda x, y: not equal(x, y))
FN["<"] = _cmp_fn(lambda x, y: cmp(x, y) < 0)
FN["<="] = _cmp_fn(lambda x, y: cmp(x, y) <= 0)
FN[">"] = _cmp_fn(lambda x, y: cmp(x, y) > 0)
FN[">="] = _cmp_fn(lambda x, y: cmp(x, y) >= 0)


def _logic(decider):
    def f(a, c):
        vals = [A(a, c, i) for i in range(len(a))]
        decided = False
        nonbool = False
        for v in vals:
            if not isinstance(v, bool):
                nonbool = True
                if decided:
                    raise Unspecified("non-boolean argument after a deciding value")
            elif v is decider:
                decided = True
        if nonbool:
            return NOTHING
        return decider if decided else (not decider)
    return f


FN["and"] = _logic(False)
FN["or"] = _logic(True)


@fn("xor")
def _xor(a, c):
    x, y = A(a, c, 0), A(a, c, 1)
    if isinstance(x, bool) and isinstance(y, bool):
        return x != y
    return NOTHING


@fn("not")
def _not(a, c):
    x = A(a, c, 0)
    if isinstance(x, bool):
        return not x
    return NOTHING


def _list(a, c, i=0):
    v = plain(A(a, c, i))
    return v if isinstance(v, list) else None


@fn("filter")
def _filter(a, c):
    l = _list(a, c)
    if l is None:
        return NOTHING
    return [x for x in l if ev(a[1], c.push(x)) is True]


@fn("map")
def _map(a, c):
    l = _list(a, c)
    if l is None:
        return NOTHING
    out = []
    for x in l:
        v = ev(a[1], c.push(x))
        if v is not NOTHING:
            out.append(v)
    return out


@fn("flat_map")
def _flat_map(a, c):
    l = _list(a, c)
    if l is None:
        return NOTHING
    out = []
    for x in l:
        v = plain(ev(a[1], c.push(x)))
        if isinstance(v, list):
            out.extend(v)
    return out


@fn("fold")
def _fold(a, c):
    l = _list(a, c)
    if l is None:
        return NOTHING
    if len(a) == 3:
        so_far = A(a, c, 1)
        body = a[2]
    else:
        so_far = NOTHING
        body = a[1]
    for i, x in enumerate(l):
        d = UDict()
        if so_far is not NOTHING:
            d["so_far"] = so_far
        d["value"] = x
        d["index"] = i
        so_far = ev(body, c.push(d))
    return so_far


@fn("group_by")
def _group_by(a, c):
    l = _list(a, c)
    if l is None:
        return NOTHING
    out = {}
    for x in l:
        k = plain(ev(a[1], c.push(x)))
        if not isinstance(k, str):
            return NOTHING
        out.setdefault(k, []).append(x)
    return out


@fn("sort_by")
def _sort_by(a, c):
    l = _list(a, c)
    if l is None:
        return NOTHING
    keyed = [(plain(ev(a[1], c.push(x))), x) for x in l]
    absent = [x for k, x in keyed if k is NOTHING]
    present = [(k, x) for k, x in keyed if k is not NOTHING]
    return absent + [x for k, x in stable_sort(present, lambda p: p[0])]


@fn("sum")
def _sum(a, c):
    l = _list(a, c)
    if l is None:
        return NOTHING
    s = 0.0
    for x in l:
        if not is_num(x):
            return NOTHING
        s = s + to_f(x)
    return norm(s)


@fn("any")
def _any(a, c):
    l = _list(a, c)
    if l is None:
        return NOTHING
    return any(x is True for x in l)


@fn("all")
def _all(a, c):
    l = _list(a, c)
    if l is None:
        return NOTHING
    return len(l) > 0 and all(x is True for x in l)


@fn("join")
def _join(a, c):
    l = _list(a, c)
    if l is None:
        return NOTHING
    sep = ", "
    if len(a) > 1:
        s = plain(A(a, c, 1))
        if isinstance(s, str):
            sep = s
        else:
            raise Unspecified("join with a separator that is not a string")
    for x in l:
        plain(x)
    if not all(isinstance(x, str) for x in l):
        return NOTHING
    return sep.join(l)


@fn("first")
def _first(a, c):
    l = _list(a, c)
    return l[0] if l else NOTHING


@fn("last")
def _last(a, c):
    l = _list(a, c)
    return l[-1] if l else NOTHING


@fn("sort")
def _sort(a, c):
    l = _list(a, c)
    if l is None:
        return NOTHING
    return stable_sort(l, lambda x: plain(x))


@fn("sort_unique")
def _sort_unique(a, c):
    l = _list(a, c)
    if l is None:
        return NOTHING
    s = stable_sort(l, lambda x: plain(x))
    out = []
    for x in s:
        if not out or cmp(out[-1], x) != 0:
            out.append(x)
    return out


@fn("indexed")
def _indexed(a, c):
    l = _list(a, c)
    if l is None:
        return NOTHING
    return [UDict(value=x, index=i) for i, x in enumerate(l)]


@fn("push")
def _push(a, c):
    l = _list(a, c)
    if l is None:
        return NOTHING
    out = list(l)
    for i in range(1, len(a)):
        v = A(a, c, i)
        if v is not NOTHING:
            out.append(v)
    return out


@fn("push_front")
def _push_front(a, c):
    l = _list(a, c)
    if l is None:
        return NOTHING
    out = list(l)
    for i in range(1, len(a)):
        v = A(a, c, i)
        if v is not NOTHING:
            out.insert(0, v)
    return out


@fn("reverese")
def _rev(a, c):
    l = _list(a, c)
    return NOTHING if l is None else l[::-1]


@fn("pop")
def _pop(a, c):
    l = _list(a, c)
    return NOTHING if l is None else l[:-1]


@fn("pop_first")
def _pop_first(a, c):
    l = _list(a, c)
    return NOTHING if l is None else l[1:]


@fn("range")
def _range(a, c):
    n = as_N(plain(A(a, c, 0)))
    if n is None:
        return NOTHING
    if n == 0:
        raise Unspecified("(range 0)")
    if n > 100000:
        raise Unspecified("range too large for the reference")
    return list(range(n))


@fn("zip")
def _zip(a, c):
    ls = [plain(A(a, c, i)) for i in range(len(a))]
    if not all(isinstance(l, list) for l in ls):
        return NOTHING
    n = max(len(l) for l in ls) if ls else 0
    out = []
    for i in range(n):
        # "keys in the format .i where i is the index list", as in every example: members in the order of the lists
        d = {}
        for j, l in enumerate(ls):
            if i < len(l):
                d[".%d" % j] = l[i]
        out.append(d)
    return out


@fn("cross")
def _cross(a, c):
    ls = [plain(A(a, c, i)) for i in range(len(a))]
    if not all(isinstance(l, list) for l in ls):
        return NOTHING
    total = 1
    for l in ls:
        total *= len(l)
    if total > 20000:
        raise Unspecified("cross too large")
    out = []
    idx = [0] * len(ls)
    if total == 0:
        return []
    for _ in range(total):
        out.append(dict((".%d" % j, ls[j][idx[j]]) for j in range(len(ls))))
        for j in range(len(ls)):
            idx[j] += 1
            if idx[j] < len(ls[j]):
                break
            idx[j] = 0
    return out


def _obj(a, c, i=0):
    v = plain(A(a, c, i))
    return v if isinstance(v, dict) else None


@fn("keys")
def _keys(a, c):
    o = _obj(a, c)
    if o is None:
        return NOTHING
    if isinstance(o, UDict) and len(o) > 1:
        raise Unspecified("member order of a constructed object")
    return list(o.keys())


@fn("values")
def _values(a, c):
    o = _obj(a, c)
    if o is None:
        return NOTHING
    if isinstance(o, UDict) and len(o) > 1:
        raise Unspecified("member order of a constructed object")
    return list(o.values())


@fn("entries")
def _entries(a, c):
    o = _obj(a, c)
    if o is None:
        return NOTHING
    if isinstance(o, UDict) and len(o) > 1:
        raise Unspecified("member order of a constructed object")
    return [UDict(key=k, value=v) for k, v in o.items()]


def _same_type(o, items):
    return UDict(items) if isinstance(o, UDict) else dict(items)


@fn("filter_keys")
def _filter_keys(a, c):
    o = _obj(a, c)
    if o is None:
        return NOTHING
    return _same_type(o, [(k, v) for k, v in o.items() if ev(a[1], c.push(k)) is True])


@fn("filter_values")
def _filter_values(a, c):
    o = _obj(a, c)
    if o is None:
        return NOTHING
    return _same_type(o, [(k, v) for k, v in o.items() if ev(a[1], c.push(v)) is True])


@fn("map_keys")
def _map_keys(a, c):
    o = _obj(a, c)
    if o is None:
        return NOTHING
    out = []
    seen = set()
    for k, v in o.items():
        nk = plain(ev(a[1], c.push(k)))
        if isinstance(nk, str):
            if nk in seen:
                raise Unspecified("map_keys producing colliding keys")
            seen.add(nk)
            out.append((nk, v))
    return _same_type(o, out)


@fn("map_values")
def _map_values(a, c):
    o = _obj(a, c)
    if o is None:
        return NOTHING
    out = []
    for k, v in o.items():
        nv = ev(a[1], c.push(v))
        if nv is not NOTHING:
            out.append((k, nv))
    return _same_type(o, out)


def _put(mode):
    def f(a, c):
        o = _obj(a, c)
        k = plain(A(a, c, 1))
        v = A(a, c, 2)
        if o is None or not isinstance(k, str) or v is NOTHING:
            return NOTHING
        out = _same_type(o, list(o.items()))
        if mode == "put" or (mode == "absent" and k not in o) or (mode == "exists" and k in o):
            out[k] = v
        return out
    return f


FN["put"] = _put("put")
FN["insert_if_absent"] = _put("absent")
FN["replace_if_exists"] = _put("exists")


@fn("sort_by_keys")
def _sbk(a, c):
    o = _obj(a, c)
    if o is None:
        return NOTHING
    return dict(sorted(o.items(), key=lambda kv: kv[0]))


@fn("sort_by_values")
def _sbv(a, c):
    o = _obj(a, c)
    if o is None:
        return NOTHING
    if isinstance(o, UDict) and len(o) > 1:
        raise Unspecified("member order of a constructed object")
    return dict(stable_sort(list(o.items()), lambda kv: plain(kv[1])))


@fn("sort_by_values_by")
def _sbvb(a, c):
    o = _obj(a, c)
    if o is None:
        return NOTHING
    if isinstance(o, UDict) and len(o) > 1:
        raise Unspecified("member order of a constructed object")
    keyed = []
    for k, v in o.items():
        kk = plain(ev(a[1], c.push(v)))
        if kk is NOTHING:
            raise Unspecified("sort_by_values_by with an absent key")
        keyed.append((kk, (k, v)))
    return dict(x for _, x in stable_sort(keyed, lambda p: p[0]))


def _nums(a, c):
    vals = [plain(A(a, c, i)) for i in range(len(a))]
    if not all(is_num(v) for v in vals):
        return None
    return [to_f(v) for v in vals]


@fn("+")
def _add(a, c):
    v = _nums(a, c)
    if v is None:
        return NOTHING
    s = 0.0
    for x in v:
        s += x
    return norm(s)


@fn("*")
def _mul(a, c):
    v = _nums(a, c)
    if v is None:
        return NOTHING
    s = 1.0
    for x in v:
        s *= x
    return norm(s)


@fn("-")
def _minus(a, c):
    v = _nums(a, c)
    if v is None:
        return NOTHING
    if len(v) == 1:
        return norm(-v[0])
    return norm(v[0] - v[1])


@fn("/")
def _div(a, c):
    v = _nums(a, c)
    if v is None or v[1] == 0:
        return NOTHING
    return norm(v[0] / v[1])


@fn("%")
def _mod(a, c):
    v = _nums(a, c)
    if v is None or v[1] == 0:
        return NOTHING
    if abs(v[0]) == math.inf or v[0] != v[0] or v[1] != v[1]:
        raise Unspecified("non-finite operand")
    return norm(math.fmod(v[0], v[1]))


def _num1(f):
    def g(a, c):
        v = plain(A(a, c, 0))
        if not is_num(v):
            return NOTHING
        x = to_f(v)
        if x != x or abs(x) == math.inf:
            return x
        return norm(f(x))
    return g


def _round_half_away(x):
    if abs(x) >= 2.0 ** 52:
        return x
    r = math.floor(abs(x) + 0.5)
    # floor(|x| + 0.5) can be off by one ulp effects for .49999999999999994
    if abs(x) - math.floor(abs(x)) < 0.5:
        r = math.floor(abs(x))
    return math.copysign(r, x)


FN["abs"] = _num1(abs)
FN["round"] = _num1(_round_half_away)
FN["ceil"] = _num1(lambda x: float(math.ceil(x)) if abs(x) < 2.0 ** 52 else x)
FN["floor"] = _num1(lambda x: float(math.floor(x)) if abs(x) < 2.0 ** 52 else x)


@fn("concat")
def _concat(a, c):
    vals = [A(a, c, i) for i in range(len(a))]
    if sum(1 for v in vals if isinstance(v, Stringified)) == 1 and all(
            isinstance(v, Stringified) or (isinstance(v, str) and not v.strip(" \t\r\n")) for v in vals):
        # JSON text with white space around it is JSON text of the same value (RFC 8259: ws value ws)
        return [v for v in vals if isinstance(v, Stringified)][0]
    vals = [plain(v) for v in vals]
    if not all(isinstance(v, str) for v in vals):
        return NOTHING
    return "".join(vals)


@fn("head")
def _head(a, c):
    s, n = plain(A(a, c, 0)), as_N(plain(A(a, c, 1)))
    if not isinstance(s, str) or n is None:
        return NOTHING
    return s[:n]


@fn("tail")
def _tail(a, c):
    s, n = plain(A(a, c, 0)), as_N(plain(A(a, c, 1)))
    if not isinstance(s, str) or n is None:
        return NOTHING
    if n > len(s):
        return s
    if n == 0 or 2 * n != len(s):
        raise Unspecified("tail with 0 <= N < length (documents do not decide between 'last N' and 'from N')")
    return s[n:]


@fn("split")
def _split(a, c):
    s, sep = plain(A(a, c, 0)), plain(A(a, c, 1))
    if not isinstance(s, str) or not isinstance(sep, str):
        return NOTHING
    if sep == "":
        raise Unspecified("split with an empty separator")
    return s.split(sep)


@fn("base63_decode")
def _b64(a, c):
    s = plain(A(a, c, 0))
    if not isinstance(s, str):
        return NOTHING
    if not re.fullmatch(r"(?:[A-Za-z0-9+/]{4})*(?:[A-Za-z0-9+/]{2}==|[A-Za-z0-9+/]{3}=)?", s):
        return NOTHING
    try:
        raw = base64.b64decode(s, validate=True)
    except Exception:
        return NOTHING
    # canonical padding bits
    if base64.b64encode(raw).decode() != s:
        raise Unspecified("non-canonical base64")
    try:
        return raw.decode("utf-8")
    except UnicodeDecodeError:
        return NOTHING


@fn("env")
def _env(a, c):
    s = plain(A(a, c, 0))
    if not isinstance(s, str):
        return NOTHING
    if s not in c.env and not s.startswith("JAWK_VF_"):
        raise Unspecified("environment variable outside the fixed environment")
    v = c.env.get(s, NOTHING)
    if isinstance(v, str):
        try:
            v.encode("utf-8")
        except UnicodeEncodeError:
            return NOTHING      # a value that is not valid UTF-8 cannot be a JSON string: nothing
    return v


@fn("parse")
def _parse(a, c):
    s = A(a, c, 0)
    if isinstance(s, Stringified):
        return s.value
    if isinstance(s, NasVal):
        raise Unspecified("parse of a number-as-string result")
    if not isinstance(s, str):
        return NOTHING
    try:
        v = jm.plain(jm.loads(s))
    except jm.JsonError:
        raise Unspecified("parse of text that is not one strict JSON value")
    return _normalise_parsed(v, s)


def _normalise_parsed(v, text):
    # numbers spelt with fraction/exponent that are integral become integers (C01 rule)
    if isinstance(v, float):
        return norm(v)
    if isinstance(v, int) and not (I64_MIN <= v <= U64_MAX):
        return norm(float(v))
    if isinstance(v, list):
        return [_normalise_parsed(x, text) for x in v]
    if isinstance(v, dict):
        return {k: _normalise_parsed(x, text) for k, x in v.items()}
    return v


@fn("stringify")
def _stringify(a, c):
    v = A(a, c, 0)
    if v is NOTHING:
        return NOTHING
    plain(v)
    return Stringified(v)


@fn("parse_selection")
def _parse_selection(a, c):
    s = plain(A(a, c, 0))
    if not isinstance(s, str):
        return NOTHING
    from . import exprparse
    try:
        ast = exprparse.parse(s)
    except exprparse.ParseError:
        raise Unspecified("parse_selection of text the reference parser does not accept")
    return ev(ast, c)


def _regex(p):
    if p in REGEX_BAD:
        return None
    if p in REGEX_OK:
        return re.compile(p)
    raise Unspecified("regular expression outside the portable set")


@fn("match")
def _match(a, c):
    s, p = plain(A(a, c, 0)), plain(A(a, c, 1))
    if not isinstance(s, str) or not isinstance(p, str):
        return NOTHING
    r = _regex(p)
    if r is None:
        return NOTHING
    return r.search(s) is not None


@fn("extract_regex_group")
def _erg(a, c):
    s, p, n = plain(A(a, c, 0)), plain(A(a, c, 1)), as_N(plain(A(a, c, 2)))
    if not isinstance(s, str) or not isinstance(p, str) or n is None:
        return NOTHING
    r = _regex(p)
    if r is None:
        return NOTHING
    m = r.search(s)
    if m is None or n > r.groups:
        return NOTHING
    g = m.group(n)
    return NOTHING if g is None else g


@fn("format_time")
def _format_time(a, c):
    t, f = plain(A(a, c, 0)), plain(A(a, c, 1))
    if not is_num(t) or not isinstance(f, str):
        return NOTHING
    # fractional seconds: <portable format>%.3f / %.6f / %.9f at the end (fixed number of digits)
    frac_digits = None
    for spec, nd in (("%.3f", 3), ("%.6f", 6), ("%.9f", 9)):
        if f.endswith(spec):
            f, frac_digits = f[:-len(spec)], nd
    if not portable_format(f):
        raise Unspecified("time format outside the portable subset")
    if not (-4 * 10 ** 9 <= t <= 4 * 10 ** 9):
        raise Unspecified("epoch value outside the portable range")
    if isinstance(t, float):
        # only instants whose fraction is a multiple of 1/8 s (exact in binary and in nanoseconds): nothing to round
        import math
        if -1e-9 < t < 0:
            # less than a nanosecond before the epoch: the last representable instant of 1969 (23:59:59.999999999); a 60th
            # second does not exist in "seconds since epoch"
            text = format_time(-1, f)
            if frac_digits is not None:
                text += "." + "999999999"[:frac_digits]
            return text
        if t * 8 != math.floor(t * 8):
            raise Unspecified("fractional epoch value that is not a multiple of 1/8 s")
        whole = math.floor(t)
        frac = t - whole
        text = format_time(int(whole), f)
    else:
        whole, frac, text = t, 0.0, format_time(t, f)
    if frac_digits is not None:
        nanos = int(round(frac * 10 ** 9))
        text += "." + ("%09d" % nanos)[:frac_digits]
    elif frac:
        pass    # a format without fractional seconds just does not show them
    return text


_DT = re.compile(r"(\d{4})-(\d\d)-(\d\d)[ T](\d\d):(\d\d):(\d\d)$")
_DTZ = re.compile(r"(\d{4})-(\d\d)-(\d\d)[ T](\d\d):(\d\d):(\d\d) ([+-])(\d\d)(\d\d)$")
_PT_FORMATS = {"%Y-%m-%d %H:%M:%S": " ", "%F %T": " ", "%Y-%m-%dT%H:%M:%S": "T"}


def _epoch(y, mo, d, h, mi, sec):
    import calendar
    import datetime
    try:
        datetime.datetime(y, mo, d, h, mi, sec)
    except ValueError:
        raise Unspecified("invalid calendar date")
    return calendar.timegm((y, mo, d, h, mi, sec))


_FRAC_SPECS = {"%.f": None, "%.3f": 3, "%.6f": 6, "%.9f": 9}


def _split_fraction(s, f, zone):
    """Fractional seconds directly after the seconds field: format ...%S<spec> / ...%T<spec> (before ' %z' when zoned).
    Returns (text without the fraction, format without the spec, Fraction of a second).  The chrono documentation read here:
    %.f takes a dot and 1-9 digits, %.3f/%.6f/%.9f a dot and exactly that many digits; anything else is left UNSPECIFIED."""
    from fractions import Fraction
    tailf = " %z" if zone else ""
    if not f.endswith(tailf):
        return s, f, Fraction(0)
    core = f[:len(f) - len(tailf)] if tailf else f
    for spec, ndig in _FRAC_SPECS.items():
        if core.endswith(spec):
            base = core[:-len(spec)]
            m = re.match(r"^(.*\d\d:\d\d:\d\d)\.(\d{1,9})(%s)$" % (r" [+-]\d{4}" if zone else ""), s)
            if m is None:
                raise Unspecified("text that may or may not match a fractional-seconds format")
            digits = m.group(2)
            if ndig is not None and len(digits) != ndig:
                raise Unspecified("number of fraction digits differs from the format")
            if len(digits) > 6 and digits[6:].strip("0"):
                raise Unspecified("sub-microsecond digits (the documents do not say whether they are kept)")
            return m.group(1) + m.group(3), base + tailf, Fraction(int(digits), 10 ** len(digits))
    return s, f, Fraction(0)


def _parse_time_common(a, c, zone):
    s, f = plain(A(a, c, 0)), plain(A(a, c, 1))
    if not isinstance(s, str) or not isinstance(f, str):
        return NOTHING
    s, f, frac = _split_fraction(s, f, zone)
    if zone:
        if not f.endswith(" %z") or f[:-3] not in _PT_FORMATS:
            raise Unspecified("time format outside the portable subset")
        m = _DTZ.match(s)
        sepch = _PT_FORMATS[f[:-3]]
    else:
        if f not in _PT_FORMATS:
            raise Unspecified("time format outside the portable subset")
        m = _DT.match(s)
        sepch = _PT_FORMATS[f]
    if m is None:
        if not any(ch.isdigit() for ch in s):
            return NOTHING
        raise Unspecified("text that may or may not match the format")
    if s[10] != sepch:
        raise Unspecified("separator mismatch")
    g = m.groups()
    t = _epoch(*[int(x) for x in g[:6]])
    if zone:
        off = (int(g[7]) * 3600 + int(g[8]) * 60) * (1 if g[6] == "+" else -1)
        t -= off
    if frac:
        return norm(float(t + frac))
    return t


@fn("parse_time")
def _parse_time(a, c):
    return _parse_time_common(a, c, False)


@fn("parse_time_with_zone")
def _parse_time_z(a, c):
    return _parse_time_common(a, c, True)


def _typep(test):
    def f(a, c):
        v = A(a, c, 0)
        if v is NOTHING:
            return False
        return test(v)
    return f


FN["array?"] = _typep(lambda v: isinstance(v, list))
FN["object?"] = _typep(lambda v: isinstance(v, dict))
FN["string?"] = _typep(lambda v: isinstance(v, (str, Stringified, NasVal)))
FN["number?"] = _typep(is_num)
FN["bool?"] = _typep(lambda v: isinstance(v, bool))
FN["null?"] = _typep(lambda v: v is None)
FN["empty?"] = lambda a, c: A(a, c, 0) is NOTHING


def _as(test):
    def f(a, c):
        v = A(a, c, 0)
        if v is not NOTHING and test(v):
            return v
        return NOTHING
    return f


FN["as_array"] = _as(lambda v: isinstance(v, list))
FN["as_object"] = _as(lambda v: isinstance(v, dict))
FN["as_string"] = _as(lambda v: isinstance(v, (str, Stringified, NasVal)))
FN["as_number"] = _as(is_num)
FN["as_boolean"] = _as(lambda v: isinstance(v, bool))


@fn("set")
def _set(a, c):
    n = plain(A(a, c, 0))
    v = A(a, c, 1)
    if not isinstance(n, str) or v is NOTHING:
        return NOTHING
    return ev(a[2], c.with_var(n, v))


@fn("define")
def _define(a, c):
    n = plain(A(a, c, 0))
    if not isinstance(n, str):
        return NOTHING
    return ev(a[2], c.with_macro(n, a[1]))


@fn(":")
def _getvar(a, c):
    n = plain(A(a, c, 0))
    if not isinstance(n, str):
        return NOTHING
    return c.vars.get(n, NOTHING)


@fn("@")
def _getmacro(a, c):
    n = plain(A(a, c, 0))
    if not isinstance(n, str):
        return NOTHING
    m = c.macros.get(n)
    return NOTHING if m is None else ev(m, c)


# ---- number as string

def _nas_all(a, c):
    out = []
    for i in range(len(a)):
        v = A(a, c, i)
        f = nas(v)
        if f is None:
            return None
        out.append(f)
    return out


@fn('"+"')
def _nas_add(a, c):
    v = _nas_all(a, c)
    return NOTHING if v is None else NasVal(sum(v, Fraction(0)))


@fn('"*"')
def _nas_mul(a, c):
    v = _nas_all(a, c)
    if v is None:
        return NOTHING
    r = Fraction(1)
    for x in v:
        r *= x
    return NasVal(r)


@fn('"-"')
def _nas_sub(a, c):
    v = _nas_all(a, c)
    if v is None:
        return NOTHING
    return NasVal(-v[0] if len(v) == 1 else v[0] - v[1])


@fn('"/"')
def _nas_div(a, c):
    v = _nas_all(a, c)
    if v is None or v[1] == 0:
        return NOTHING
    q = v[0] / v[1]
    d = q.denominator
    while d % 2 == 0:
        d //= 2
    while d % 5 == 0:
        d //= 5
    if d != 1 or len(str(q.numerator)) > 45:
        raise Unspecified("non-terminating or very long quotient")
    return NasVal(q)


@fn('"%"')
def _nas_mod(a, c):
    v = _nas_all(a, c)
    if v is None or v[1] == 0:
        return NOTHING
    x, y = v
    q = abs(x) // abs(y)
    r = abs(x) - q * abs(y)
    return NasVal(r if x >= 0 else -r)


@fn('"abs"')
def _nas_abs(a, c):
    v = _nas_all(a, c)
    return NOTHING if v is None else NasVal(abs(v[0]))


@fn('"||"')
def _nas_norm(a, c):
    v = _nas_all(a, c)
    return NOTHING if v is None else NasVal(v[0])


@fn('"round"')
def _nas_round(a, c):
    v = _nas_all(a, c)
    if v is None:
        return NOTHING
    x = v[0]
    fl = x.numerator // x.denominator
    fr = x - fl
    if fr == Fraction(1, 2):
        raise Unspecified('"round" of an exact tie')
    return NasVal(Fraction(fl if fr < Fraction(1, 2) else fl + 1))


def _nas_cmp(test):
    def f(a, c):
        v = _nas_all(a, c)
        if v is None:
            return NOTHING
        return test(v[0], v[1])
    return f


FN['"<"'] = _nas_cmp(lambda x, y: x < y)
FN['"<="'] = _nas_cmp(lambda x, y: x <= y)
FN['">"'] = _nas_cmp(lambda x, y: x > y)
FN['">="'] = _nas_cmp(lambda x, y: x >= y)
FN['"="'] = _nas_cmp(lambda x, y: x == y)
FN['"!="'] = _nas_cmp(lambda x, y: x != y)


@fn('"sort_by"')
def _nas_sort_by(a, c):
    l = _list(a, c)
    if l is None:
        return NOTHING
    keyed = []
    for i, x in enumerate(l):
        k = nas(ev(a[1], c.push(x)))
        if k is None:
            raise Unspecified('"sort_by" with a key that is not a number as string')
        keyed.append((k, i, x))
    keyed.sort(key=lambda t: (t[0], t[1]))
    return [x for _, _, x in keyed]


# --------------------------------------------------------------------------
# comparing an expected (model) value with what jawk printed

def matches(exp, got):
    """exp: model value (may contain UDict / Stringified / NasVal); got: plain value read from jawk's output."""
    if isinstance(exp, Stringified):
        if not isinstance(got, str):
            return False
        try:
            back = jm.plain(jm.loads(got))
        except jm.JsonError:
            return False
        return matches(_normalise_parsed_model(exp.value), _normalise_parsed(back, got))
    if isinstance(exp, NasVal):
        if not isinstance(got, str):
            return False
        try:
            return Fraction(got) == exp.fr
        except (ValueError, ZeroDivisionError):
            return False
    if exp is None or isinstance(exp, bool):
        return got is exp
    if isinstance(exp, str):
        return isinstance(got, str) and got == exp
    if is_num(exp):
        if not is_num(got):
            return False
        if isinstance(exp, float) and (exp != exp or abs(exp) == math.inf):
            raise Unspecified("non-finite number printed")
        if isinstance(exp, int) and isinstance(got, int):
            return exp == got
        if isinstance(exp, float) and exp == math.floor(exp) and not (-(2.0 ** 63) < exp < 2.0 ** 64):
            # a double outside the integer range: jawk prints all its digits, the token may look like an integer
            if isinstance(got, int) and -(2 ** 63) <= got <= 2 ** 64 - 1:
                return Fraction(exp) == got     # ... but an integer of the 64-bit ranges denotes itself (2^64-1 is not 2^64)
            return float(got) == exp
        if isinstance(exp, int) != isinstance(got, int):
            # integral results must be printed as integers and vice versa
            return False
        return float(exp) == float(got)
    if isinstance(exp, list):
        return isinstance(got, list) and len(exp) == len(got) and all(matches(a, b) for a, b in zip(exp, got))
    if isinstance(exp, dict):
        if not isinstance(got, dict) or len(exp) != len(got):
            return False
        if isinstance(exp, UDict):
            return all(k in got and matches(v, got[k]) for k, v in exp.items())
        return all(k1 == k2 and matches(v1, v2) for (k1, v1), (k2, v2) in zip(exp.items(), got.items()))
    raise TypeError(type(exp))


def _normalise_parsed_model(v):
    return v


def to_plain(v):
    """Model value -> printable approximation (for reports)."""
    if v is NOTHING:
        return "<nothing>"
    if isinstance(v, Stringified):
        return {"$stringified": to_plain(v.value)}
    if isinstance(v, NasVal):
        return {"$nas": str(v.fr)}
    if isinstance(v, list):
        return [to_plain(x) for x in v]
    if isinstance(v, dict):
        return {k: to_plain(x) for k, x in v.items()}
    if isinstance(v, float) and (v != v or abs(v) == math.inf):
        return repr(v)
    return v
