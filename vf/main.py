import importlib
import json
import os
import sys
import time

from . import core


class Env:
    def __init__(self, prop, tier, seed):
        self.prop = prop
        self.tier = tier
        self.seed = seed
        self.t0 = time.time()
        self.driver = None
        self.hooks_on = False

    def build(self, profile="release"):
        self.driver, self.hooks_on = core.build_driver(profile)
        return self.driver


def main(argv):
    if not argv:
        print("usage: check <ID> <quick|thorough> [--replay file]")
        return 2
    prop = argv[0].upper()
    tier = os.environ.get("VERIF_TIER", "quick")
    replay = None
    rest = argv[1:]
    i = 0
    while i < len(rest):
        if rest[i] == "--replay":
            replay = rest[i + 1]
            i += 2
        elif rest[i] in ("quick", "thorough"):
            tier = rest[i]
            i += 1
        else:
            print("unknown argument", rest[i])
            return 2
    try:
        seed = int(os.environ.get("VERIF_SEED", "0"))
    except ValueError:
        seed = 0
    try:
        mod = importlib.import_module("vf.checks." + prop.lower())
    except ImportError as e:
        print("no check for", prop, e)
        return 2
    env = Env(prop, tier, seed)
    try:
        env.build()
    except core.BuildFailed as e:
        print("INCONCLUSIVE property=%s build failed: %s" % (prop, e))
        return 2
    if replay:
        body = json.load(open(replay))
        unit = core.dec(body["unit"])
        return mod.replay(env, unit)
    return mod.run(env)


def replay_unit(env, run_unit, unit):
    """Generic replay: run one unit in-process with one driver, print what the oracle says."""
    ctx = core.Ctx(env.prop, env.tier, env.seed, 0, 1, env.driver, env.hooks_on, time.time() + 600, {})
    try:
        run_unit(ctx, unit)
    finally:
        ctx.drv.close()
    st = ctx.stats
    open_findings, _ = core.load_known_findings(env.prop)
    code = 0
    for fid, info in st.known.items():
        if fid in open_findings:
            print("KNOWN-FINDING: property=%s %s (id=%s)" % (env.prop, open_findings[fid], fid))
        else:
            print("VIOLATION property=%s replay=(this file)  # unlisted finding %s" % (env.prop, fid))
            code = 1
    for v in st.violations:
        print("VIOLATION property=%s replay=(this file)  # %s: %s" % (env.prop, v["sig"], v["summary"]))
        if v.get("detail") is not None:
            print(json.dumps(core.enc(v["detail"]), indent=1)[:4000])
        code = 1
    if code == 0:
        print("replay: the oracle is satisfied (inconclusive=%s)" % st.inconclusive)
    return code
