"""Self-tests that validate the reference evaluator against the repository's own inline examples."""
import json
import os

from . import exprmodel as em, exprparse, jsonmodel as jm


def examples_from(table):
    for f in table:
        if f["name"] in ("exec", "trigger", "now"):
            continue
        for e in f["examples"]:
            yield f, e


def validate(table, verbose=False):
    ok = bad = unspec = skipped = 0
    failures = []
    for f, e in examples_from(table):
        if e.get("custom"):
            skipped += 1
            continue
        try:
            args = tuple(exprparse.parse(a) for a in e["arguments"])
        except exprparse.ParseError as ex:
            skipped += 1
            continue
        ast = ("call", f["name"], args)
        inp = None
        if "input" in e:
            try:
                inp = jm.plain(jm.loads(e["input"]))
            except jm.JsonError:
                skipped += 1
                continue
        ctx = em.Ctx(inp, (), {}, {}, None, {"PATH": "x"})
        try:
            got = em.ev(ast, ctx)
        except em.Unspecified:
            unspec += 1
            continue
        if "expected_output" in e:
            try:
                want = jm.plain(jm.loads(e["expected_output"]))
            except jm.JsonError:
                skipped += 1
                continue
            want = em._normalise_parsed(want, "")
            try:
                good = got is not em.NOTHING and em.matches(got, want)
            except em.Unspecified:
                unspec += 1
                continue
        else:
            good = got is em.NOTHING
        if good or e.get("more_or_less"):
            ok += 1
        else:
            bad += 1
            failures.append((f["name"], e, em.to_plain(got)))
    return ok, bad, unspec, skipped, failures


def test_evaluator_against_pinned_examples():
    table = json.load(open(os.path.join(os.path.dirname(__file__), "function_table.json")))
    ok, bad, unspec, skipped, failures = validate(table)
    for f in failures:
        print("EXAMPLE MISMATCH", f)
    assert bad == 0, "%d documented examples disagree with the reference evaluator" % bad
    assert ok > 330, ok
    print("selftest: reference evaluator agrees with %d inline examples (%d unspecified, %d skipped)" % (ok, unspec, skipped))
