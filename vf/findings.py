"""Exact defect models behind the open entries of known-findings.txt.

A discrepancy is attributed to a finding only if the defect model reproduces
the observed output exactly; anything else on the same input stays a violation.
"""
from . import jsonmodel as jm


def compare_rows(expected, stdout, sep=b"\n", ascii_mode=True, order=True):
    """Compare jawk's JSON-mode stdout with the expected row values.
    Returns (status, detail): status in 'ok', 'known:<id>', 'bad'."""
    try:
        rows = jm.read_rows(stdout, sep)
        err = None
    except jm.JsonError as e:
        rows, err = None, e
    if rows is not None and len(rows) == len(expected) and all(jm.same(e, g, order) for e, g in zip(expected, rows)):
        return "ok", None
    # defect model: astral-escape (only in ASCII mode, only if an astral character is involved)
    if ascii_mode and any(jm.has_astral(e) for e in expected):
        try:
            # (two member names that differ only in "astral character" vs "BMP character + hex digit" are printed alike under
            # this defect: the model merges them the same way, first position, last value)
            rows2 = jm.read_rows(stdout, sep, lone_surrogates=True, merge_duplicates=True)
        except jm.JsonError:
            rows2 = None
        if rows2 is not None and len(rows2) == len(expected):
            try:
                exp2 = [jm.astral_defect(e) for e in expected]
                if all(jm.same(e, g, order) for e, g in zip(exp2, rows2)):
                    return "known:astral-escape", None
            except Exception:
                pass
    if err is not None:
        return "bad", {"why": "unreadable-output", "error": str(err)}
    if len(rows) != len(expected):
        k = 0
        while k < min(len(rows), len(expected)) and jm.same(expected[k], rows[k], order):
            k += 1
        return "bad", {"why": "row-count", "values_in": len(expected), "rows_out": len(rows), "first_difference_at": k,
                       "expected_at": expected[k:k + 2], "got_at": [jm.plain(r) for r in rows[k:k + 3]]}
    for k, (e, g) in enumerate(zip(expected, rows)):
        if not jm.same(e, g, order):
            return "bad", {"why": "value-changed", "row": k, "diff": jm.first_diff(e, g)}
    return "bad", {"why": "?"}
