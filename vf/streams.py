"""Generated input streams: sequences of spelt JSON values with legal separators."""
from . import jsonmodel as jm


def gen_stream(rng, nvalues=None, maxdepth=4, touch_p=0.3, tags=None, classes=None, wsp=0.25, gen=None):
    """Returns (bytes, expected_values, spans, info) for a clean stream.
    spans[i] = (start, end) byte offsets of value i in the input."""
    if nvalues is None:
        nvalues = rng.choice((0, 1, 2, 3, 5, 8, 13, rng.randint(0, 60)))
    out = []
    pos = 0
    expected = []
    spans = []
    prev = None
    touching = 0
    lead = jm.ws(rng, 0.3).encode()
    out.append(lead)
    pos += len(lead)
    for i in range(nvalues):
        r = rng.random()
        if gen is not None:
            v = gen(rng)
        elif r < 0.03:
            v = jm.gen_deep(rng, rng.choice((8, 32, 63, 64)))
        else:
            v = jm.gen_value(rng, 0, maxdepth, classes)
        t, e = jm.spell(v, rng, tags, wsp)
        if prev is not None:
            if rng.random() < touch_p and jm.can_touch(prev, t):
                sep = ""
                touching += 1
                if tags is not None:
                    tags.add("touch:" + _tokclass(prev[-1]) + _tokclass(t[0]))
            else:
                sep = jm.ws(rng, 1.0)
                if tags is not None:
                    tags.add("sep:" + ("nl" if "\n" in sep else "sp"))
            b = sep.encode()
            out.append(b)
            pos += len(b)
        b = t.encode("utf-8")
        spans.append((pos, pos + len(b)))
        out.append(b)
        pos += len(b)
        expected.append(e)
        prev = t
    tail = jm.ws(rng, 0.4).encode()
    out.append(tail)
    return b"".join(out), expected, spans, {"touching": touching}


def _tokclass(c):
    if c in "}]":
        return "close"
    if c in "{[":
        return "open"
    if c == '"':
        return "quote"
    if c.isdigit() or c == "-":
        return "num"
    return "lit"
