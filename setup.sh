#!/bin/sh
# Build the driver (release, hooks on) against /repo's working tree and run the framework self-tests. Offline.
set -e
cd "$(dirname "$0")"
export CARGO_NET_OFFLINE=true
python3 - <<'PY'
import sys
sys.path.insert(0, '.')
from vf import core
p, hooks = core.build_driver("release")
print("driver:", p, "hooks:", hooks)
PY
python3 -m vf.selftest
